package main

// Injected into package main of cmd/mcrew by /verif/vcheck.py with
// `go test -overlay`; nothing is written into /repo.

import (
	"context"
	"fmt"
	"os"
	"sort"
	"strings"
	"testing"

	"github.com/Comcast/sheens/core"
	"github.com/Comcast/sheens/crew"
	"pgregory.net/rapid"
	"verif/lib/ev"
	"verif/lib/jsongen"
)

// ---------------------------------------------------------------- C09 (mcrew's store)
//
// mcrew persists machine states in bolt (cmd/mcrew/storage.go).  At a
// drawn message boundary a second service is populated from what the
// store holds; from then on both services see the same requests and must
// walk the same way.

type McrewReloadCase struct {
	Ops      []SOpV `json:"ops"`
	ReloadAt int    `json:"reloadAt"`
}

func genMcrewReload(t *rapid.T) McrewReloadCase {
	c := McrewReloadCase{}
	n := rapid.IntRange(2, 5).Draw(t, "machines")
	pool := []string{"a", "b", "c", "d", "e"}[:n]
	for _, mid := range pool {
		c.Ops = append(c.Ops, SOpV{Kind: "add", Mid: mid, Tmp: rapid.Bool().Draw(t, "tmp."+mid)})
	}
	for i := rapid.IntRange(2, 10).Draw(t, "n"); i > 0; i-- {
		op := genSOp(t, fmt.Sprintf("o%d", i), false, pool...)
		if op.Kind == "read" {
			op.Kind = "process"
			op.All = true
		}
		c.Ops = append(c.Ops, op)
	}
	c.ReloadAt = rapid.IntRange(n, len(c.Ops)-1).Draw(t, "reloadAt")
	return c
}

func walkedText(ws map[string]*core.Walked) string {
	var out []string
	for mid, w := range ws {
		to := "nil"
		if w != nil && w.To() != nil {
			to = w.To().NodeName + " " + jsongen.Canon(map[string]interface{}(w.To().Bs))
		}
		out = append(out, mid+": "+to)
	}
	sort.Strings(out)
	return strings.Join(out, "; ")
}

func checkMcrewReload(c McrewReloadCase) (v ev.Verdict) {
	ctx, cancel := context.WithCancel(context.Background())
	defer cancel()
	s, dir, err := verifNewService(ctx)
	if err != nil {
		v.Failf("NewService: %v", err)
		return
	}
	defer func() {
		cancel()
		s.store.Close(context.Background())
		os.RemoveAll(dir)
	}()
	var s2 *Service
	broadcasts := 0
	for i, op := range c.Ops {
		if i == c.ReloadAt {
			mss, err := s.store.GetCrew(ctx, s.crewName)
			if err != nil {
				v.Failf("before op %d: the stored crew cannot be read back: %v", i, err)
				return
			}
			s2 = &Service{ProcessCtl: core.DefaultControl, crewName: s.crewName, specDir: s.specDir, interpreters: s.interpreters,
				crew: crew.Crew{Id: s.crewName, Machines: AsMachines(mss)}}
			s2.timers = NewTimers(func(ctx context.Context, msg interface{}) error { return nil })
			if viewStr(memView(s2)) != viewStr(memView(s)) {
				v.Failf("before op %d: the crew read back from the store differs from the crew in memory:\n memory %s\n store  %s", i, viewStr(memView(s)), viewStr(memView(s2)))
				return
			}
		}
		ws, err1 := doSOp(ctx, s, op)
		if op.Kind == "process" && op.All && len(memView(s)) >= 2 {
			broadcasts++
		}
		if s2 != nil {
			ws2, err2 := doSOp(ctx, s2, op)
			if (err1 == nil) != (err2 == nil) {
				v.Failf("op %d %s: the original service says %v, the one reloaded from the store %v", i, ev.JS(op), err1, err2)
				return
			}
			if walkedText(ws) != walkedText(ws2) {
				v.Failf("op %d %s: after the reload at %d the walks differ:\n original %s\n reloaded %s", i, ev.JS(op), c.ReloadAt, walkedText(ws), walkedText(ws2))
				return
			}
			if viewStr(memView(s2)) != viewStr(memView(s)) {
				v.Failf("after op %d %s the reloaded crew differs:\n original %s\n reloaded %s", i, ev.JS(op), viewStr(memView(s)), viewStr(memView(s2)))
				return
			}
		}
	}
	v.NonTrivial = s2 != nil && broadcasts >= 1
	if broadcasts > 0 {
		v.Class("several-states-in-one-write")
	}
	return
}

func TestC09Mcrew(t *testing.T) {
	ev.Run(t, ev.Opts{Property: "C09", Name: "mcrew", Quick: 400, Thorough: 20000,
		Rule: "mcrew's bolt store: 2-5 counter machines, 2-10 routed and broadcast requests (increments, binding-removing steps, adds, removes); at a drawn boundary a second service is populated from what the store holds (GetCrew + AsMachines); read-back crew == crew in memory, and from then on both services must answer every request alike; non-trivial = a reload happened and a broadcast wrote several states at once"},
		genMcrewReload, checkMcrewReload)
}
