package main

// Injected into package main of cmd/mcrew by /verif/vcheck.py with
// `go test -overlay`; nothing is written into /repo.

import (
	"context"
	"encoding/json"
	"fmt"
	"os"
	"path/filepath"
	"runtime"
	"sort"
	"strings"
	"sync"
	"testing"
	"time"

	"github.com/Comcast/sheens/core"
	"github.com/Comcast/sheens/match"
	"pgregory.net/rapid"
	"verif/lib/ev"
	"verif/lib/jsongen"
)

// ---------------------------------------------------------------- C16

const verifCounterYAML = `
name: vcounter
doc: counts the messages it consumed
patternsyntax: json
nodes:
  start:
    branching:
      type: message
      branches:
      - pattern: |
          {"inc":"?n"}
        target: add
      - pattern: |
          {"drop":"?d"}
        target: drop
      - pattern: |
          {"fan":"?f"}
        target: fan
      - pattern: |
          {"bump":"?k"}
        target: bump
  fan:
    action:
      interpreter: ecmascript
      source: |-
        var bs = _.bindings;
        _.out({to: _.props.mid, bump: 1});
        _.out({to: _.props.mid, bump: 10});
        delete bs["?f"];
        return bs;
    branching:
      branches:
      - target: start
  bump:
    action:
      interpreter: ecmascript
      source: |-
        var bs = _.bindings;
        bs.count = (typeof bs.count === 'number' ? bs.count : 0) + bs["?k"];
        delete bs["?k"];
        return bs;
    branching:
      branches:
      - target: start
  drop:
    action:
      interpreter: ecmascript
      source: |-
        var bs = _.bindings;
        delete bs.tmp;
        delete bs["?d"];
        return bs;
    branching:
      branches:
      - target: start
  add:
    action:
      interpreter: ecmascript
      source: |-
        var bs = _.bindings;
        var c = (typeof bs.count === 'number' ? bs.count : 0) + 1;
        var out = {count: c};
        if (typeof bs.per === 'number') { out.per = bs.per; out.rate = 1 / bs.per; }
        return out;
    branching:
      branches:
      - target: start
`

type SOpV struct {
	Kind string `json:"kind"` // add, rem, process, read, down, up, poisonAdd
	Mid  string `json:"mid,omitempty"`
	All  bool   `json:"all,omitempty"`
	// Per0: the machine is added with bindings {"per":0}; its action then
	// computes 1/0 = +Inf, a state that cannot be written
	Per0 bool `json:"per0,omitempty"`
	// Tmp: the machine is added with a binding {"tmp":"x"}, which a
	// "drop" message removes again (a step that only removes bindings
	// and comes back to the node it left)
	Tmp  bool `json:"tmp,omitempty"`
	Drop bool `json:"drop,omitempty"` // process: the message is {"drop":1}
	// Gone: the request comes with a context that has already ended (a
	// client that went away): whatever the service then does, memory
	// and store must still agree, and a request that reports an error
	// must not have changed the crew
	Gone bool `json:"gone,omitempty"`
	// Fan (process, one machine, sequential histories): the message makes
	// the machine emit two messages to itself, {"bump":1} and {"bump":10};
	// the service processes what its machines emit as requests of its
	// own, and none of those may be lost or doubled: the count grows by 11
	Fan bool `json:"fan,omitempty"`
	// Lost (add, sequential histories): the machine is added at a node its
	// specification does not have; the first step of its next walk fails
	// and the walk takes it to the error node - a transition like any
	// other: in memory only together with the write
	Lost bool `json:"lost,omitempty"`
}

type ServiceCase struct {
	Ops        []SOpV   `json:"ops"`
	Concurrent bool     `json:"concurrent,omitempty"`
	Clients    [][]SOpV `json:"clients,omitempty"`
}

var c16mids = []string{"a", "b", "c"}

func genSOp(t *rapid.T, label string, faults bool, pool ...string) SOpV {
	if len(pool) == 0 {
		pool = c16mids
	}
	kinds := []string{"add", "add", "rem", "process", "process", "process", "read"}
	if faults {
		kinds = append(kinds, "down", "up", "up", "poisonAdd")
	}
	op := SOpV{Kind: rapid.SampledFrom(kinds).Draw(t, label+".k")}
	op.Mid = rapid.SampledFrom(pool).Draw(t, label+".mid")
	if op.Kind == "process" {
		op.All = rapid.IntRange(0, 3).Draw(t, label+".all") == 0
	}
	if op.Kind == "add" && faults {
		op.Per0 = rapid.IntRange(0, 5).Draw(t, label+".per0") == 0
	}
	if op.Kind == "add" {
		op.Tmp = rapid.IntRange(0, 2).Draw(t, label+".tmp") == 0
	}
	if op.Kind == "add" && faults {
		op.Lost = rapid.IntRange(0, 5).Draw(t, label+".lost") == 2
	}
	if op.Kind == "process" {
		op.Drop = rapid.IntRange(0, 3).Draw(t, label+".drop") == 0
	}
	if faults && op.Kind != "read" {
		op.Gone = rapid.IntRange(0, 5).Draw(t, label+".gone") == 0
	}
	if faults && op.Kind == "process" && !op.Gone && !op.Drop {
		if op.Fan = rapid.IntRange(0, 3).Draw(t, label+".fan") == 0; op.Fan {
			op.All = false
		}
	}
	return op
}

func genService(t *rapid.T) ServiceCase {
	c := ServiceCase{}
	if rapid.IntRange(0, 3).Draw(t, "conc") == 0 {
		c.Concurrent = true
		for _, mid := range c16mids[:rapid.IntRange(1, 3).Draw(t, "pre")] {
			c.Ops = append(c.Ops, SOpV{Kind: "add", Mid: mid})
		}
		k := rapid.IntRange(2, 6).Draw(t, "clients")
		for i := 0; i < k; i++ {
			var ops []SOpV
			for j := rapid.IntRange(1, 6).Draw(t, fmt.Sprintf("n%d", i)); j > 0; j-- {
				ops = append(ops, genSOp(t, fmt.Sprintf("c%d.%d", i, j), false))
			}
			c.Clients = append(c.Clients, ops)
		}
		return c
	}
	pool := c16mids
	if rapid.IntRange(0, 2).Draw(t, "big") == 0 {
		// a bigger crew, some of whose machines cannot be written after
		// their next step: a broadcast then is one write of many states
		// of which some fail
		n := rapid.SampledFrom([]int{2, 5, 9, 17, 20, 33, 40, 70}).Draw(t, "crew")
		pool = nil
		for i := 0; i < n; i++ {
			pool = append(pool, fmt.Sprintf("m%02d", i))
		}
		bad := rapid.IntRange(0, n-1).Draw(t, "bad")
		for i, mid := range pool {
			c.Ops = append(c.Ops, SOpV{Kind: "add", Mid: mid, Per0: i == bad || rapid.IntRange(0, 15).Draw(t, fmt.Sprintf("p%d", i)) == 0})
		}
		c.Ops = append(c.Ops, SOpV{Kind: "process", All: true})
	}
	for i := rapid.IntRange(1, 15).Draw(t, "n"); i > 0; i-- {
		c.Ops = append(c.Ops, genSOp(t, fmt.Sprintf("o%d", i), true, pool...))
	}
	return c
}

var verifServiceSeq int
var verifServiceMu sync.Mutex

func verifNewService(ctx context.Context) (*Service, string, error) {
	verifServiceMu.Lock()
	verifServiceSeq++
	n := verifServiceSeq
	verifServiceMu.Unlock()
	dir := os.Getenv("VERIF_WORK")
	if dir == "" {
		dir = os.TempDir()
	}
	dir = filepath.Join(dir, fmt.Sprintf("c16-%d-%d", os.Getpid(), n))
	if err := os.MkdirAll(filepath.Join(dir, "specs"), 0755); err != nil {
		return nil, "", err
	}
	if err := os.WriteFile(filepath.Join(dir, "specs", "vcounter.yaml"), []byte(verifCounterYAML), 0644); err != nil {
		return nil, "", err
	}
	s, err := NewService(ctx, filepath.Join(dir, "specs"), filepath.Join(dir, "crew.db"), "")
	return s, dir, err
}

// memView / storeView: id -> "node bindings"
func memView(s *Service) map[string]string {
	out := map[string]string{}
	cp := s.crew.Copy()
	for id, m := range cp.Machines {
		bs := map[string]interface{}{}
		if m.State != nil && m.State.Bs != nil {
			bs = map[string]interface{}(m.State.Bs)
		}
		out[id] = m.State.NodeName + " " + jsongen.Canon(bs)
	}
	return out
}

func storeView(ctx context.Context, s *Service, down bool) (map[string]string, error) {
	if down {
		if err := s.store.Open(ctx); err != nil {
			return nil, err
		}
		defer s.store.Close(ctx)
	}
	mss, err := s.store.GetCrew(ctx, s.crewName)
	if err != nil {
		return nil, err
	}
	out := map[string]string{}
	for _, ms := range mss {
		bs := map[string]interface{}{}
		if ms.Bs != nil {
			bs = map[string]interface{}(ms.Bs)
		}
		out[ms.Mid] = ms.NodeName + " " + jsongen.Canon(bs)
	}
	return out, nil
}

// verifCountOf reads the count out of a view entry ("node {bindings}").
func verifCountOf(view string) float64 {
	i := strings.Index(view, "{")
	if i < 0 {
		return 0
	}
	var bs map[string]interface{}
	if json.Unmarshal([]byte(view[i:]), &bs) != nil {
		return 0
	}
	c, _ := bs["count"].(float64)
	return c
}

func viewStr(v map[string]string) string {
	keys := make([]string, 0, len(v))
	for k := range v {
		keys = append(keys, k)
	}
	sort.Strings(keys)
	var sb strings.Builder
	for _, k := range keys {
		fmt.Fprintf(&sb, "%q: %s; ", k, v[k])
	}
	return sb.String()
}

func doSOp(ctx context.Context, s *Service, op SOpV) (map[string]*core.Walked, error) {
	if op.Gone {
		var cancel context.CancelFunc
		ctx, cancel = context.WithCancel(ctx)
		cancel()
	}
	switch op.Kind {
	case "add":
		if op.Lost {
			return nil, s.AddMachine(ctx, "vcounter", op.Mid, "nowhere", match.Bindings{"kept": "x"})
		}
		if op.Per0 {
			return nil, s.AddMachine(ctx, "vcounter", op.Mid, "", match.Bindings{"per": 0.0})
		}
		if op.Tmp {
			return nil, s.AddMachine(ctx, "vcounter", op.Mid, "", match.Bindings{"tmp": "x"})
		}
		return nil, s.AddMachine(ctx, "vcounter", op.Mid, "", nil)
	case "poisonAdd":
		// bolt rejects the empty key, so this write fails as a whole
		return nil, s.AddMachine(ctx, "vcounter", "", "", nil)
	case "rem":
		return nil, s.RemMachine(ctx, op.Mid)
	case "process":
		msg := map[string]interface{}{"inc": 1.0}
		if op.Drop {
			msg = map[string]interface{}{"drop": 1.0}
		}
		if op.Fan {
			msg = map[string]interface{}{"fan": 1.0}
		}
		if !op.All {
			msg["to"] = op.Mid
		}
		return s.Process(ctx, msg, nil)
	case "read":
		s.crew.Copy()
	}
	return nil, nil
}

func checkService(c ServiceCase) (v ev.Verdict) {
	ctx, cancel := context.WithCancel(context.Background())
	s, dir, err := verifNewService(ctx)
	if err != nil {
		cancel()
		v.Failf("NewService: %v", err)
		return
	}
	down := false
	defer func() {
		if down {
			// NewService closes the store when ctx ends; it must be open for that
			s.store.Open(context.Background())
		}
		cancel()
		s.store.Close(context.Background())
		os.RemoveAll(dir)
	}()
	faultWindowOps := map[string]bool{}
	goneSeen := false // a request whose context had ended came before: its write may land late
	for i, op := range c.Ops {
		before := memView(s)
		switch op.Kind {
		case "down":
			if !down {
				if err := s.store.Close(ctx); err != nil {
					v.Failf("closing the store: %v", err)
					return
				}
				down = true
			}
			continue
		case "up":
			if down {
				if err := s.store.Open(ctx); err != nil {
					v.Failf("opening the store: %v", err)
					return
				}
				down = false
			}
			continue
		}
		if down {
			faultWindowOps[op.Kind] = true
		}
		if op.Fan && (goneSeen || down) {
			// the requests a fan-out makes are processed when they are
			// processed; where the harness could not tell when that is
			// over (no expected count to wait for: the store is down, or
			// a write of an abandoned request may still land) the message
			// is an ordinary increment
			op.Fan = false
		}
		goroutines := runtime.NumGoroutine()
		_, operr := doSOp(ctx, s, op)
		if op.Fan {
			// the two emitted messages are processed by goroutines of
			// the service's own: wait for them to end
			was, have := before[op.Mid]
			want := verifCountOf(was) + 11
			// (a machine that is not listening at "start" - one added at
			// a node its specification lacks - does not fan out)
			judged := have && !down && operr == nil && !goneSeen && strings.HasPrefix(was, "start ")
			for deadline := time.Now().Add(8 * time.Second); time.Now().Before(deadline); {
				if judged && verifCountOf(memView(s)[op.Mid]) == want {
					break
				}
				if !judged && runtime.NumGoroutine() <= goroutines {
					break
				}
				time.Sleep(time.Millisecond)
			}
			// (a request that was doubled may still be under way)
			for i := 0; i < 100 && runtime.NumGoroutine() > goroutines; i++ {
				time.Sleep(time.Millisecond)
			}
			if judged {
				if got := verifCountOf(memView(s)[op.Mid]); got != want {
					v.Failf("op %d %s: machine %q emitted {bump:1} and {bump:10} to itself; its count was %v and must now be %v, but is %v (%s)", i, ev.JS(op), op.Mid, verifCountOf(was), want, got, memView(s)[op.Mid])
					return
				}
				v.Class("emitted-requests")
			}
		}
		if op.Gone {
			goneSeen = true
			// a write the service has given up waiting for may still be
			// under way: give it a moment to land before looking
			time.Sleep(3 * time.Millisecond)
			faultWindowOps["gone-context"] = true
			v.Class("request-context-already-ended")
		}
		if operr != nil && op.Kind == "process" && op.All && !down && len(before) >= 2 {
			// one write of several states of which at least one cannot
			// be written
			faultWindowOps["partial-write"] = true
			faultWindowOps[fmt.Sprintf("partial-write-crew-%d", len(before)/16*16)] = true
			v.Class("partial-write-fault")
		}
		mem := memView(s)
		st, err := storeView(ctx, s, down)
		if err != nil {
			v.Failf("reading the store: %v", err)
			return
		}
		if viewStr(mem) != viewStr(st) {
			v.Failf("after op %d %s (store down=%v, op error=%v) memory and store differ:\n memory %s\n store  %s", i, ev.JS(op), down, operr, viewStr(mem), viewStr(st))
			return
		}
		if (operr != nil && op.Kind != "add") || down || op.Kind == "poisonAdd" {
			// a failed write must leave the crew as it was ("add" of an
			// existing id fails without a write and changes nothing either)
			if viewStr(mem) != viewStr(before) {
				v.Failf("op %d %s failed (store down=%v, error=%v) but the crew changed:\n before %s\n after  %s", i, ev.JS(op), down, operr, viewStr(before), viewStr(mem))
				return
			}
		}
	}
	if !c.Concurrent {
		n := 0
		for range faultWindowOps {
			n++
		}
		v.NonTrivial = n >= 2
		if n > 0 {
			v.Class("fault-window")
		}
		return
	}
	// concurrent clients
	v.Class("concurrent")
	// Several clients add one and the same id at the same moment (they
	// are released together from behind the crew's lock): exactly one of
	// them may be told that it created the machine.
	{
		const n = 6
		errs := make([]error, n)
		var dwg sync.WaitGroup
		s.crew.Lock()
		for i := 0; i < n; i++ {
			dwg.Add(1)
			go func(i int) {
				defer dwg.Done()
				errs[i] = s.AddMachine(ctx, "vcounter", "dup", "", match.Bindings{"who": float64(i)})
			}(i)
		}
		time.Sleep(2 * time.Millisecond)
		s.crew.Unlock()
		dwg.Wait()
		created := 0
		for _, e := range errs {
			if e == nil {
				created++
			}
		}
		if created != 1 {
			v.Failf("%d of %d concurrent requests to add machine \"dup\" were acknowledged as having created it (errors: %v)", created, n, errs)
			return
		}
		if err := s.RemMachine(ctx, "dup"); err != nil {
			v.Failf("removing \"dup\": %v", err)
			return
		}
	}
	type ack struct {
		mid      string
		from, to float64
	}
	var mu sync.Mutex
	var acks []ack
	var wg sync.WaitGroup
	start := make(chan struct{})
	for _, ops := range c.Clients {
		wg.Add(1)
		go func(ops []SOpV) {
			defer wg.Done()
			<-start
			for _, op := range ops {
				ws, _ := doSOp(ctx, s, op)
				if op.Drop {
					continue // only removes a binding: no count to chain
				}
				for mid, w := range ws {
					if w == nil || len(w.Strides) == 0 {
						continue
					}
					to := w.To()
					if to == nil {
						continue
					}
					from := w.Strides[0].From
					f, _ := jsongen.Normalize(from.Bs["count"])
					tt, _ := jsongen.Normalize(to.Bs["count"])
					ff, _ := f.(float64)
					tf, _ := tt.(float64)
					mu.Lock()
					acks = append(acks, ack{mid, ff, tf})
					mu.Unlock()
				}
			}
		}(ops)
	}
	close(start)
	wg.Wait()
	mem := memView(s)
	st, err := storeView(ctx, s, false)
	if err != nil {
		v.Failf("reading the store: %v", err)
		return
	}
	if viewStr(mem) != viewStr(st) {
		v.Failf("after concurrent clients %s memory and store differ:\n memory %s\n store  %s", ev.JS(c.Clients), viewStr(mem), viewStr(st))
		return
	}
	// no lost update: per machine incarnation the acknowledged walks
	// chain 0->1->2...; a machine that was removed and added again
	// starts over, so chains are checked as a multiset of links without
	// duplicates of the same link unless the machine was re-added
	readded := map[string]bool{}
	for _, ops := range c.Clients {
		for _, op := range ops {
			if op.Kind == "rem" || op.Kind == "add" {
				readded[op.Mid] = true
			}
		}
	}
	byMid := map[string][]ack{}
	for _, a := range acks {
		byMid[a.mid] = append(byMid[a.mid], a)
	}
	shared := 0
	for mid, as := range byMid {
		if len(as) >= 2 {
			shared++
		}
		if readded[mid] {
			continue
		}
		seen := map[float64]bool{}
		for _, a := range as {
			if a.to != a.from+1 {
				v.Failf("machine %q: an acknowledged walk went from count %v to %v", mid, a.from, a.to)
				return
			}
			if seen[a.from] {
				v.Failf("machine %q: two acknowledged requests both started from count %v (lost update): %v", mid, a.from, as)
				return
			}
			seen[a.from] = true
		}
		// final count = number of acknowledged walks
		want := fmt.Sprintf("start {\"count\":%d}", len(as))
		if got := mem[mid]; got != want {
			v.Failf("machine %q: %d requests were acknowledged but the machine is at %s", mid, len(as), got)
			return
		}
	}
	v.NonTrivial = shared >= 1
	return
}

func TestC16Service(t *testing.T) {
	ev.Run(t, ev.Opts{Property: "C16", Name: "service", Quick: 1500, Thorough: 40000, ShrinkTime: "10s",
		Rule: "mcrew Service over a real bolt file: sequences of add / remove / process / read-crew with the store going down (Storage.Close) and up at drawn positions and poison ids that make one write fail; after every op memory must equal the store and a failed op must leave the crew unchanged; concurrent variant: 2-6 clients issue op lists, afterwards memory == store and per machine the acknowledged walks chain without a lost update; non-trivial = a fault window containing >= 2 kinds of op, or >= 2 acknowledged requests on one machine from concurrent clients"},
		genService, checkService)
}

// ---- a request held inside its spec lookup while others complete
//
// The spec of machine x is a named pipe: GetSpec blocks reading it until
// the harness feeds it.  That puts a process request "in the middle"
// for as long as the harness wants, without any scheduling luck, while
// other clients remove and re-add the machine.  Whatever the service
// does, the outcome must equal that of some order of the requests: in
// particular a machine's state can only have been produced by its own
// specification.

func stampedCounterYAML(stamp string) string {
	return fmt.Sprintf(`
name: stamped-%s
patternsyntax: json
nodes:
  start:
    branching:
      type: message
      branches:
      - pattern: |
          {"inc":"?n"}
        target: add
  add:
    action:
      interpreter: ecmascript
      source: |-
        var bs = _.bindings;
        var c = (typeof bs.count === 'number' ? bs.count : 0) + 1;
        return {count: c, by: "%s"};
    branching:
      branches:
      - target: seen%s
  seen%s:
    branching:
      type: message
      branches:
      - pattern: |
          {"inc":"?n"}
        target: add
`, stamp, stamp, stamp, stamp)
}

type GateCase struct {
	During []SOpV `json:"during"` // requests issued while process(x) is held in its spec lookup
	After  []SOpV `json:"after"`
}

func genGate(t *rapid.T) GateCase {
	c := GateCase{}
	mk := func(label string) SOpV {
		k := rapid.SampledFrom([]string{"rem", "addB", "addB", "processOther", "read"}).Draw(t, label+".k")
		return SOpV{Kind: k, Mid: rapid.SampledFrom([]string{"x", "x", "y"}).Draw(t, label+".mid")}
	}
	for i := rapid.IntRange(1, 4).Draw(t, "nd"); i > 0; i-- {
		c.During = append(c.During, mk(fmt.Sprintf("d%d", i)))
	}
	for i := rapid.IntRange(0, 3).Draw(t, "na"); i > 0; i-- {
		c.After = append(c.After, mk(fmt.Sprintf("a%d", i)))
	}
	return c
}

func checkGate(c GateCase) (v ev.Verdict) {
	ctx, cancel := context.WithCancel(context.Background())
	s, dir, err := verifNewService(ctx)
	if err != nil {
		cancel()
		v.Failf("NewService: %v", err)
		return
	}
	defer func() {
		cancel()
		s.store.Close(context.Background())
		os.RemoveAll(dir)
	}()
	specs := filepath.Join(dir, "specs")
	os.WriteFile(filepath.Join(specs, "stampedB.yaml"), []byte(stampedCounterYAML("B")), 0644)
	fifo := filepath.Join(specs, "slowA.yaml")
	if err := mkfifo(fifo); err != nil {
		v.Skip, v.SkipReason = true, "mkfifo"
		return
	}
	feed := func() {
		f, err := os.OpenFile(fifo, os.O_WRONLY, 0)
		if err != nil {
			return
		}
		f.Write([]byte(stampedCounterYAML("A")))
		f.Close()
	}
	if err := s.AddMachine(ctx, "slowA", "x", "", nil); err != nil {
		v.Failf("AddMachine: %v", err)
		return
	}
	specOf := map[string]string{"x": "A"}
	pDone := make(chan struct{})
	go func() {
		defer close(pDone)
		s.Process(ctx, map[string]interface{}{"to": "x", "inc": 1.0}, nil)
	}()
	time.Sleep(3 * time.Millisecond) // let it reach the spec lookup
	do := func(op SOpV) {
		switch op.Kind {
		case "rem":
			s.RemMachine(ctx, op.Mid)
		case "addB":
			s.AddMachine(ctx, "stampedB", op.Mid, "", nil)
		case "processOther":
			if op.Mid != "x" {
				s.Process(ctx, map[string]interface{}{"to": op.Mid, "inc": 1.0}, nil)
			}
		case "read":
			s.crew.Copy()
		}
	}
	rDone := make(chan struct{})
	go func() {
		defer close(rDone)
		for _, op := range c.During {
			do(op)
		}
	}()
	overlapped := false
	select {
	case <-rDone:
		overlapped = true // the others completed while process(x) was held
	case <-time.After(25 * time.Millisecond):
	}
	go feed()
	select {
	case <-pDone:
	case <-time.After(5 * time.Second):
		v.Skip, v.SkipReason = true, "process-did-not-return"
		go feed()
		return
	}
	select {
	case <-rDone:
	case <-time.After(5 * time.Second):
		v.Skip, v.SkipReason = true, "clients-did-not-return"
		return
	}
	for _, op := range c.After {
		if op.Kind == "processOther" || op.Mid != "x" || op.Kind != "addB" {
			do(op)
		} else {
			do(op)
		}
	}
	_ = specOf
	// memory == store, and every machine's state was produced by its
	// own specification
	mem := memView(s)
	st, err := storeView(ctx, s, false)
	if err != nil {
		v.Failf("reading the store: %v", err)
		return
	}
	if viewStr(mem) != viewStr(st) {
		v.Failf("memory and store differ:\n memory %s\n store  %s", viewStr(mem), viewStr(st))
		return
	}
	cp := s.crew.Copy()
	for id, m := range cp.Machines {
		want := "A"
		if m.SpecSource != nil && m.SpecSource.Name == "stampedB" {
			want = "B"
		}
		if by, ok := m.State.Bs["by"].(string); ok && by != want {
			v.Failf("machine %q runs specification %s but its state %s %s was produced by specification %s: no order of the requests %s (issued while process(x) was held in its spec lookup) gives that", id, want, m.State.NodeName, jsongen.Canon(map[string]interface{}(m.State.Bs)), by, ev.JS(c.During))
			return
		}
		if strings.HasPrefix(m.State.NodeName, "seen") && m.State.NodeName != "seen"+want {
			v.Failf("machine %q runs specification %s but is at node %q of the other specification", id, want, m.State.NodeName)
			return
		}
	}
	touchesX := false
	for _, op := range c.During {
		if op.Mid == "x" && (op.Kind == "rem" || op.Kind == "addB") {
			touchesX = true
		}
	}
	v.NonTrivial = touchesX
	if overlapped {
		v.Class("others-completed-while-held")
	} else {
		v.Class("others-waited-for-the-held-request")
	}
	return
}

func TestC16Gate(t *testing.T) {
	ev.Run(t, ev.Opts{Property: "C16", Name: "gate", Quick: 60, Thorough: 1500, ShrinkTime: "5s",
		Rule: "a process request for machine x is held inside its specification lookup (the spec file is a named pipe the harness feeds) while generated remove / re-add (with another specification) / process / read requests are issued, then released; memory == store and every machine's state must have been produced by its own specification (the outcome of some order of the requests); non-trivial = a request issued meanwhile removes or re-adds x"},
		genGate, checkGate)
}
