package main

import "syscall"

func mkfifo(path string) error { return syscall.Mkfifo(path, 0644) }
