package main

// Injected into package main of cmd/mcrew by /verif/vcheck.py with
// `go test -overlay`; nothing is written into /repo.

import (
	"context"
	"encoding/json"
	"fmt"
	"os"
	"path/filepath"
	"testing"
	"time"

	"github.com/Comcast/sheens/match"
	"pgregory.net/rapid"
	"verif/lib/ev"
	"verif/lib/jsongen"
	"verif/lib/sm"
)

// ---------------------------------------------------------------- C07 (the mcrew host)
//
// "Processing returns normally and never crashes the host process, also
// when no control settings are supplied": here the host is mcrew.  Process
// requests arrive as JSON (protocol.go), with whatever control settings
// the client wrote - none, an empty object, a limit of zero or less - for
// machines whose actions and guards fail in the generated ways, at known
// and unknown nodes, with and without bindings.

type McrewTotalMachine struct {
	Mid   string                 `json:"mid"`
	Node  string                 `json:"node"`
	Bs    map[string]interface{} `json:"bs"`
	NilBs bool                   `json:"nilBs,omitempty"`
}

type McrewTotalCase struct {
	Spec     *sm.ASpec           `json:"spec"`
	Machines []McrewTotalMachine `json:"machines"`
	// Requests are the JSON texts of process operations
	Requests []string `json:"requests"`
}

var verifCtlTexts = []string{``, `"ctl":null,`, `"ctl":{},`, `"ctl":{"limit":0},`, `"ctl":{"limit":-1},`, `"ctl":{"limit":1},`, `"ctl":{"limit":2},`, `"ctl":{"limit":100},`}

func genMcrewTotal(t *rapid.T) McrewTotalCase {
	o := sm.SpecOpts{Deterministic: true, Fail: 3, GuardFail: 2, UserErrorNode: true, Derive: true, ArrayVar: true}
	var a *sm.ASpec
	if rapid.Bool().Draw(t, "lively") {
		a = sm.GenLivelySpec(t, o)
	} else {
		a = sm.GenSpec(t, o)
	}
	c := McrewTotalCase{Spec: a}
	for i := rapid.IntRange(1, 3).Draw(t, "machines"); i > 0; i-- {
		m := McrewTotalMachine{Mid: fmt.Sprintf("m%d", i), Node: rapid.SampledFrom(a.NodeNames()).Draw(t, fmt.Sprintf("at%d", i)), Bs: sm.GenBindings(t, fmt.Sprintf("bs%d", i))}
		if rapid.IntRange(0, 7).Draw(t, fmt.Sprintf("odd%d", i)) == 0 {
			m.Node = rapid.SampledFrom([]string{"unknown", "error", ""}).Draw(t, fmt.Sprintf("oddat%d", i))
		}
		if rapid.IntRange(0, 5).Draw(t, fmt.Sprintf("nil%d", i)) == 0 {
			m.NilBs, m.Bs = true, map[string]interface{}{}
		}
		c.Machines = append(c.Machines, m)
	}
	for i := rapid.IntRange(1, 4).Draw(t, "requests"); i > 0; i-- {
		msg := sm.GenMessageFor(t, a, fmt.Sprintf("msg%d", i))
		if mm, is := msg.(map[string]interface{}); is && rapid.Bool().Draw(t, fmt.Sprintf("to%d", i)) {
			mm["to"] = rapid.SampledFrom([]string{"m1", "m2", "m3", "nobody"}).Draw(t, fmt.Sprintf("tom%d", i))
		}
		js, _ := json.Marshal(msg)
		ctl := rapid.SampledFrom(verifCtlTexts).Draw(t, fmt.Sprintf("ctl%d", i))
		c.Requests = append(c.Requests, fmt.Sprintf(`{%s"message":%s}`, ctl, js))
	}
	return c
}

func checkMcrewTotal(c McrewTotalCase) (v ev.Verdict) {
	if _, err := c.Spec.Compiled(); err != nil {
		v.Skip, v.SkipReason = true, "spec does not compile"
		return
	}
	ctx, cancel := context.WithCancel(context.Background())
	s, dir, err := verifNewService(ctx)
	if err != nil {
		cancel()
		v.Failf("NewService: %v", err)
		return
	}
	defer func() {
		cancel()
		s.store.Close(context.Background())
		os.RemoveAll(dir)
	}()
	flow, _ := json.Marshal(c.Spec.Doc(true, false)) // flow-style YAML
	if err := os.WriteFile(filepath.Join(dir, "specs", "vtotal.yaml"), flow, 0644); err != nil {
		v.Failf("writing the spec: %v", err)
		return
	}
	for _, m := range c.Machines {
		var bs match.Bindings
		if !m.NilBs {
			bs = match.Bindings(jsongen.CopyMap(m.Bs))
		}
		if err := s.AddMachine(ctx, "vtotal", m.Mid, m.Node, bs); err != nil {
			v.Failf("AddMachine: %v", err)
			return
		}
		if m.NilBs {
			// AddMachine gives a new machine empty bindings; a machine
			// read from the store can have none
			s.crew.Machines[m.Mid].State.Bs = nil
		}
	}
	odd := 0
	for i, r := range c.Requests {
		var op OpProcess
		if err := json.Unmarshal([]byte(r), &op); err != nil {
			v.Failf("request %s: %v", r, err)
			return
		}
		if op.Ctl == nil || op.Ctl.Limit <= 0 {
			odd++
		}
		panicked := ""
		done := make(chan struct{})
		go func() {
			defer close(done)
			defer func() {
				if x := recover(); x != nil {
					panicked = fmt.Sprint(x)
				}
			}()
			op.Do(ctx, s)
		}()
		select {
		case <-done:
		case <-time.After(20 * time.Second):
			v.Failf("request %d %s did not return within 20 s", i, r)
			return
		}
		if panicked != "" {
			v.Failf("request %d %s crashed the service: %s", i, r, panicked)
			return
		}
		if op.Error == nil {
			for mid, w := range op.Walked {
				if w == nil {
					v.Failf("request %d %s: no error, and no walk for machine %s", i, r, mid)
					return
				}
			}
		}
		// the crew must be usable afterwards (its lock released)
		free := make(chan struct{})
		go func() { s.crew.Lock(); s.crew.Unlock(); close(free) }()
		select {
		case <-free:
		case <-time.After(10 * time.Second):
			v.Failf("after request %d %s the crew stays locked", i, r)
			return
		}
	}
	if odd > 0 {
		v.Class("no-or-odd-control-settings")
	}
	v.NonTrivial = odd > 0
	return
}

func TestC07Mcrew(t *testing.T) {
	ev.Run(t, ev.Opts{Property: "C07", Name: "mcrew", Quick: 1200, Thorough: 40000, Journal: true,
		Rule: "the mcrew host: 1-3 machines of a generated specification (throwing / null- and non-object-returning actions and guards, unknown nodes, absent bindings), 1-4 process requests decoded from JSON with no control settings, null, {}, limit 0, -1, 1, 2, 100; every request must return (no panic, no hang), a request without error has a walk for every processed machine, and the crew lock is free afterwards; non-trivial = at least one request had no or a non-positive limit"},
		genMcrewTotal, checkMcrewTotal)
}
