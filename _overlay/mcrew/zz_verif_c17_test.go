package main

import (
	"context"
	"encoding/json"
	"fmt"
	"sync"
	"sync/atomic"
	"testing"
	"time"

	"pgregory.net/rapid"
	"verif/lib/ev"
)

// ---------------------------------------------------------------- C17 (mcrew)

type TOp struct {
	Kind    string `json:"kind"` // make, cancel, wait, cancelAtDue
	Id      string `json:"id,omitempty"`
	DelayMs int    `json:"delay_ms,omitempty"`
	WaitMs  int    `json:"wait_ms,omitempty"`
	Handler []TOp  `json:"handler,omitempty"` // requests issued from inside the firing handler
	// Ctx: the context the request is made under: 0 the service's own,
	// 1 and 2 request contexts (mcrew's websocket client makes one per
	// connection) that a dropCtx operation ends
	Ctx int `json:"ctx,omitempty"`
	// Via: how the request reaches the timers: "" the Timers API, "in" /
	// "at" a makeTimer request through the service's glue with a relative
	// delay or an absolute (RFC3339) due time
	Via string `json:"via,omitempty"`
}

type TimerCase struct {
	Ops []TOp `json:"ops"`
	// Shutdown: at the end the timers are shut down as a whole instead
	// of being cancelled one by one
	Shutdown bool `json:"shutdown,omitempty"`
}

var timerIds = []string{"a", "b", "c"}
var timerDelays = []int{1, 3, 10, 40, 5000}

func genTOp(t *rapid.T, label string, depth int) TOp {
	kinds := []string{"make", "make", "make", "cancel", "wait"}
	if depth == 0 {
		kinds = append(kinds, "cancelAtDue", "contend", "dropCtx", "contendDrop")
	} else {
		kinds = []string{"make", "make", "cancel"}
	}
	op := TOp{Kind: rapid.SampledFrom(kinds).Draw(t, label+".k"), Id: rapid.SampledFrom(timerIds).Draw(t, label+".id")}
	switch op.Kind {
	case "dropCtx":
		op.Id = ""
		op.Ctx = rapid.IntRange(1, 2).Draw(t, label+".ctx")
	case "contendDrop":
		op.Ctx = rapid.IntRange(1, 2).Draw(t, label+".ctx")
		op.WaitMs = rapid.SampledFrom([]int{3, 5000}).Draw(t, label+".cnew")
	case "make", "cancelAtDue", "contend":
		op.DelayMs = rapid.SampledFrom(timerDelays).Draw(t, label+".d")
		if op.Kind == "make" {
			op.Ctx = rapid.SampledFrom([]int{0, 0, 1, 2}).Draw(t, label+".ctx")
			op.Via = rapid.SampledFrom([]string{"", "", "in", "at"}).Draw(t, label+".via")
		}
		if op.Kind == "contend" {
			op.DelayMs = rapid.SampledFrom([]int{1, 2, 3}).Draw(t, label+".cd")
			op.WaitMs = rapid.SampledFrom([]int{3, 5000}).Draw(t, label+".cnew")
		}
		if op.Kind == "cancelAtDue" {
			op.DelayMs = rapid.SampledFrom([]int{1, 3, 10}).Draw(t, label+".dd")
		}
		if depth == 0 && op.Kind == "make" && op.DelayMs <= 40 && rapid.IntRange(0, 2).Draw(t, label+".h") == 0 {
			for i := rapid.IntRange(1, 2).Draw(t, label+".hn"); i > 0; i-- {
				h := genTOp(t, fmt.Sprintf("%s.h%d", label, i), depth+1)
				if rapid.Bool().Draw(t, fmt.Sprintf("%s.hself%d", label, i)) {
					h.Id = op.Id // the firing timer's own id
				}
				op.Handler = append(op.Handler, h)
			}
		}
	case "wait":
		op.WaitMs = rapid.SampledFrom([]int{0, 2, 5, 15, 50}).Draw(t, label+".w")
	}
	return op
}

func genTimers(t *rapid.T) TimerCase {
	c := TimerCase{}
	for i := rapid.IntRange(1, 10).Draw(t, "n"); i > 0; i-- {
		c.Ops = append(c.Ops, genTOp(t, fmt.Sprintf("o%d", i), 0))
	}
	c.Shutdown = rapid.IntRange(0, 3).Draw(t, "shutdown") == 0
	return c
}

type incarnation struct {
	n         int
	id        string
	due       time.Time // not before this
	delay     int
	handler   []TOp
	cancelled bool // a cancel returned success
	fired     int
	firedAt   time.Time
	inHandler bool
	ctx       int
	// dropped: the context the timer was made under ended while it was
	// neither fired nor cancelled; droppedFar: more than 50 ms before it
	// was due; gone: it was then seen to have left the pending set
	dropped, droppedFar, gone bool
}

type timerHarness struct {
	// opMu makes the harness's own make/cancel requests (issued by the
	// requester and, concurrently, by firing handlers) atomic with
	// respect to each other, so that "the previous timer with this id"
	// is known exactly when a request is refused
	opMu      sync.Mutex
	mu        sync.Mutex
	ts        *Timers
	svc       *Service // a service that has nothing but these timers (for the glue)
	incs      []*incarnation
	live      map[string]*incarnation // latest accepted incarnation per id
	bad       string
	ctx       context.Context
	ctxs      [3]context.Context
	cancels   [3]context.CancelFunc
	drops     int
	v         *ev.Verdict
	hreq      int
	handlers  int // firing handlers currently running
	idReuse   int
	shutdowns int
	nearDue   int
}

// fail records the first problem; callers hold h.mu.
func (h *timerHarness) fail(f string, a ...interface{}) {
	if h.bad == "" {
		h.bad = fmt.Sprintf(f, a...)
	}
}

func (h *timerHarness) failed() bool {
	h.mu.Lock()
	defer h.mu.Unlock()
	return h.bad != ""
}

func (h *timerHarness) failLocked(f string, a ...interface{}) {
	h.mu.Lock()
	defer h.mu.Unlock()
	h.fail(f, a...)
}

// make issues an Add; inFiringOf != nil when called from a handler.
func (h *timerHarness) make(op TOp, inFiringOf *incarnation) {
	h.opMu.Lock()
	defer h.opMu.Unlock()
	h.makeL(op, inFiringOf)
}

// makeL: make with opMu already held by the caller.
func (h *timerHarness) makeL(op TOp, inFiringOf *incarnation) {
	h.mu.Lock()
	h.incs = append(h.incs, nil) // reserve the incarnation number
	n := len(h.incs)
	prev := h.live[op.Id]
	// (sampled before the request: a refusal is wrong only if the
	// previous timer had fired by then - it may also fire between the
	// refusal and our looking at it)
	prevFired := prev != nil && prev.fired > 0
	h.mu.Unlock()
	t0 := time.Now()
	h.mu.Lock()
	rctx := h.ctxs[op.Ctx]
	h.mu.Unlock()
	var err error
	msg := map[string]interface{}{"inc": float64(n)}
	switch op.Via {
	case "in":
		err = h.svc.toTimers(rctx, map[string]interface{}{"makeTimer": map[string]interface{}{"id": op.Id, "in": fmt.Sprintf("%dms", op.DelayMs), "message": msg}})
	case "at":
		// the due time as an absolute time (rounded up to the next
		// millisecond, so that the timer is not due before t0 + delay)
		at := t0.Add(time.Duration(op.DelayMs) * time.Millisecond).Truncate(time.Millisecond).Add(time.Millisecond)
		err = h.svc.toTimers(rctx, map[string]interface{}{"makeTimer": map[string]interface{}{"id": op.Id, "at": at.UTC().Format(time.RFC3339Nano), "message": msg}})
	default:
		err = h.ts.Add(rctx, op.Id, msg, time.Duration(op.DelayMs)*time.Millisecond)
	}
	h.mu.Lock()
	defer h.mu.Unlock()
	if err != nil {
		// "id exists" is right only if the previous incarnation of the
		// id is still pending
		if prev == nil || prev.cancelled || prev.dropped {
			h.fail("make %q was refused (%v) although no timer with that id is pending", op.Id, err)
		} else if prevFired {
			if inFiringOf == prev {
				h.fail("make %q from inside the handler of its own firing was refused (%v): the id is not free although the timer has fired", op.Id, err)
			} else if h.live[op.Id] == prev {
				h.fail("make %q was refused (%v) although the previous timer with that id has fired", op.Id, err)
			}
		}
		return
	}
	if prev != nil && !prev.cancelled && !prev.dropped && prev.fired == 0 && prev.due.After(time.Now().Add(50*time.Millisecond)) {
		h.fail("make %q was accepted although a timer with that id is pending (due in %v)", op.Id, time.Until(prev.due))
	}
	inc := &incarnation{n: n, id: op.Id, due: t0.Add(time.Duration(op.DelayMs) * time.Millisecond), delay: op.DelayMs, handler: op.Handler, ctx: op.Ctx}
	h.incs[n-1] = inc
	if prev != nil {
		h.idReuse++
	}
	h.live[op.Id] = inc
}

func (h *timerHarness) cancel(id string, inFiringOf *incarnation) {
	h.opMu.Lock()
	defer h.opMu.Unlock()
	h.cancelL(id, inFiringOf)
}

// cancelL: cancel with opMu already held by the caller.
func (h *timerHarness) cancelL(id string, inFiringOf *incarnation) {
	h.mu.Lock()
	target := h.live[id]
	h.mu.Unlock()
	err := h.ts.Rem(h.ctx, id)
	h.mu.Lock()
	defer h.mu.Unlock()
	if err == nil {
		if target == nil {
			h.fail("cancel %q succeeded although no timer with that id was ever accepted", id)
			return
		}
		if target.cancelled {
			h.fail("cancel %q succeeded twice for the same timer", id)
		}
		if target.gone {
			h.fail("cancel %q succeeded although that timer had already left the pending set when its context ended", id)
		}
		if inFiringOf == target {
			h.fail("cancel %q from inside the handler of its own firing succeeded: the timer is still reported as pending although it has fired", id)
		}
		target.cancelled = true
		if d := time.Until(target.due); d < time.Millisecond && d > -time.Millisecond {
			h.nearDue++
		}
	} else if target != nil && !target.cancelled && !target.dropped && target.fired == 0 && target.due.After(time.Now().Add(50*time.Millisecond)) {
		h.fail("cancel %q failed (%v) although the timer is pending (due in %v)", id, err, time.Until(target.due))
	}
}

// emitter is the handler of a firing.
func (h *timerHarness) emitter(ctx context.Context, message interface{}) error {
	now := time.Now()
	m, _ := message.(map[string]interface{})
	nf, _ := m["inc"].(float64)
	h.mu.Lock()
	var inc *incarnation
	// the incarnation may not be registered yet if it fired before
	// make() returned; wait for it briefly
	for i := 0; i < 2000 && inc == nil; i++ {
		if int(nf) >= 1 && int(nf) <= len(h.incs) && h.incs[int(nf)-1] != nil {
			inc = h.incs[int(nf)-1]
			break
		}
		h.mu.Unlock()
		time.Sleep(100 * time.Microsecond)
		h.mu.Lock()
	}
	if inc == nil {
		h.fail("a timer fired that was never accepted: %v", message)
		h.mu.Unlock()
		return nil
	}
	inc.fired++
	inc.firedAt = now
	if inc.fired > 1 {
		h.fail("timer %q (incarnation %d) fired %d times", inc.id, inc.n, inc.fired)
	}
	if now.Before(inc.due) {
		h.fail("timer %q fired %v before its due time", inc.id, inc.due.Sub(now))
	}
	if inc.cancelled {
		h.fail("timer %q fired although a cancel had returned success", inc.id)
	}
	if inc.dropped && inc.droppedFar {
		h.fail("timer %q fired although the context it was made under had ended long before it was due", inc.id)
	}
	handler := inc.handler
	h.handlers++
	h.mu.Unlock()
	defer func() {
		h.mu.Lock()
		h.handlers--
		h.mu.Unlock()
	}()
	for _, op := range handler {
		h.mu.Lock()
		h.hreq++
		h.mu.Unlock()
		switch op.Kind {
		case "make":
			h.make(op, inc)
		case "cancel":
			h.cancel(op.Id, inc)
		}
	}
	return nil
}

// markDropped ends request context k in the model: every timer made
// under it that has neither fired nor been cancelled will, from now on,
// either be removed without firing or (if it is about due) fire.
// Callers hold h.mu.  It returns the context's cancel function and the
// affected timers, and installs a fresh context for later requests.
func (h *timerHarness) markDropped(k int) (context.CancelFunc, []*incarnation) {
	now := time.Now()
	var affected []*incarnation
	for _, inc := range h.incs {
		if inc != nil && inc.ctx == k && !inc.cancelled && inc.fired == 0 && !inc.dropped {
			inc.dropped = true
			inc.droppedFar = inc.due.After(now.Add(50 * time.Millisecond))
			affected = append(affected, inc)
		}
	}
	cancel := h.cancels[k]
	h.ctxs[k], h.cancels[k] = context.WithCancel(h.ctx)
	h.drops++
	return cancel, affected
}

// awaitGoneMs: how long a timer whose context ended may stay in the
// pending set before that is reported (generous: its goroutine only has
// to be scheduled).
var awaitGoneMs atomic.Int64

func init() { awaitGoneMs.Store(3000) }

// awaitGone waits until the affected timers (those that are still the
// latest under their id) have left the pending set: they will never
// fire, so "pending = accepted, not fired, not cancelled" has no room
// for them.
func (h *timerHarness) awaitGone(affected []*incarnation) {
	deadline := time.Now().Add(time.Duration(awaitGoneMs.Load()) * time.Millisecond)
	for {
		p, err := h.pending()
		if err != nil {
			h.failLocked("pending set not serialisable: %v", err)
			return
		}
		h.mu.Lock()
		left := 0
		for _, inc := range affected {
			if h.live[inc.id] == inc && inc.fired == 0 && !inc.cancelled && p[inc.id] {
				left++
			} else {
				inc.gone = true
			}
		}
		if left > 0 && time.Now().After(deadline) {
			for _, inc := range affected {
				if !inc.gone {
					h.fail("timer %q (incarnation %d) is still reported pending %d ms after the context it was made under ended; it will never fire and its id is not free", inc.id, inc.n, awaitGoneMs.Load())
					// once seen, shrinking need not wait as long
					awaitGoneMs.Store(500)
				}
			}
			left = 0
		}
		h.mu.Unlock()
		if left == 0 {
			return
		}
		time.Sleep(time.Millisecond)
	}
}

// dropCtx ends request context k while no request of the harness is in
// flight.
func (h *timerHarness) dropCtx(k int) {
	h.opMu.Lock()
	defer h.opMu.Unlock()
	h.mu.Lock()
	cancel, affected := h.markDropped(k)
	h.mu.Unlock()
	cancel()
	h.awaitGone(affected)
}

func (h *timerHarness) pending() (map[string]bool, error) {
	js, err := json.Marshal(h.ts)
	if err != nil {
		return nil, err
	}
	var x struct {
		Map map[string]interface{} `json:"map"`
	}
	if err := json.Unmarshal(js, &x); err != nil {
		return nil, err
	}
	out := map[string]bool{}
	for id := range x.Map {
		out[id] = true
	}
	return out, nil
}

// checkPending compares the reported pending set with the model at a
// point where no handler is running: a timer that is far from due must
// be reported; an id whose latest timer has fired (and finished its
// handler) or was cancelled must not be.
func (h *timerHarness) checkPending(where string) {
	// no request of the harness (the requester's or a handler's) is in
	// flight while the reported set and the model are compared
	h.opMu.Lock()
	defer h.opMu.Unlock()
	p, err := h.pending()
	h.mu.Lock()
	defer h.mu.Unlock()
	if err != nil {
		h.fail("pending set not serialisable: %v", err)
		return
	}
	now := time.Now()
	for _, id := range timerIds {
		inc := h.live[id]
		if inc == nil {
			if p[id] {
				h.fail("%s: %q is reported pending but was never accepted", where, id)
			}
			continue
		}
		switch {
		case inc.cancelled:
			if p[id] {
				h.fail("%s: %q is reported pending although it was cancelled", where, id)
			}
		case inc.dropped:
			if p[id] && inc.gone {
				h.fail("%s: %q is reported pending although its context ended and it had left the pending set", where, id)
			}
		case inc.fired > 0:
			if p[id] && now.Sub(inc.firedAt) > 200*time.Millisecond {
				h.fail("%s: %q is reported pending %v after it fired", where, id, now.Sub(inc.firedAt))
			}
		case inc.due.After(now.Add(50 * time.Millisecond)):
			if !p[id] {
				h.fail("%s: %q (due in %v) is not reported pending", where, id, time.Until(inc.due))
			}
		}
	}
}

func checkTimers(c TimerCase) (v ev.Verdict) {
	ctx, cancel := context.WithCancel(context.Background())
	defer cancel()
	h := &timerHarness{live: map[string]*incarnation{}, ctx: ctx}
	h.ctxs[0] = ctx
	for k := 1; k <= 2; k++ {
		h.ctxs[k], h.cancels[k] = context.WithCancel(ctx)
	}
	h.ts = NewTimers(h.emitter)
	h.svc = &Service{timers: h.ts}
	h.ts.Errors = make(chan interface{}, 1024)
	for _, op := range c.Ops {
		switch op.Kind {
		case "make":
			h.make(op, nil)
		case "cancel":
			h.cancel(op.Id, nil)
		case "wait":
			time.Sleep(time.Duration(op.WaitMs) * time.Millisecond)
		case "dropCtx":
			h.dropCtx(op.Ctx)
		case "contendDrop":
			// A far-from-due timer's context ends while a requester that
			// cancels the timer and makes a new one under the same id is
			// queued on the timers' lock: the timer goroutine's own
			// clean-up and the requester compete when the lock is freed.
			h.make(TOp{Kind: "make", Id: op.Id, DelayMs: 5000, Ctx: op.Ctx}, nil)
			// from here on no other request of the harness (a handler's)
			// is in flight: the contexts are swapped under opMu, so that
			// no make can be under way with the context that is ending
			h.opMu.Lock()
			h.mu.Lock()
			inc := h.live[op.Id]
			h.mu.Unlock()
			if inc != nil && inc.ctx == op.Ctx && inc.delay == 5000 && !inc.cancelled && !inc.dropped && inc.fired == 0 {
				h.ts.Lock()
				done := make(chan struct{})
				go func() {
					defer close(done)
					h.cancelL(op.Id, nil)
					h.makeL(TOp{Kind: "make", Id: op.Id, DelayMs: op.WaitMs}, nil)
				}()
				time.Sleep(time.Millisecond)
				h.mu.Lock()
				cancel, affected := h.markDropped(op.Ctx)
				h.mu.Unlock()
				cancel()
				time.Sleep(time.Millisecond)
				h.ts.Unlock()
				<-done
				h.awaitGone(affected)
				h.mu.Lock()
				h.nearDue++
				h.mu.Unlock()
			}
			h.opMu.Unlock()
		case "contend":
			// The timer becomes due while the timers' (exported) lock is
			// held by someone else; meanwhile a requester cancels it and
			// makes a new timer under the same id.  When the lock is
			// released the firing and the requester compete for it.
			h.make(TOp{Kind: "make", Id: op.Id, DelayMs: op.DelayMs}, nil)
			h.mu.Lock()
			inc := h.live[op.Id]
			h.mu.Unlock()
			if inc != nil && inc.delay == op.DelayMs && !inc.cancelled {
				h.ts.Lock()
				for time.Now().Before(inc.due.Add(2 * time.Millisecond)) {
					time.Sleep(200 * time.Microsecond)
				}
				done := make(chan struct{})
				go func() {
					defer close(done)
					h.cancel(op.Id, nil)
					h.make(TOp{Kind: "make", Id: op.Id, DelayMs: op.WaitMs}, nil)
				}()
				time.Sleep(time.Millisecond)
				h.ts.Unlock()
				<-done
				h.mu.Lock()
				h.nearDue++
				h.mu.Unlock()
			}
		case "cancelAtDue":
			// aim a cancel at the instant the timer becomes due
			h.make(TOp{Kind: "make", Id: op.Id, DelayMs: op.DelayMs}, nil)
			h.mu.Lock()
			inc := h.live[op.Id]
			h.mu.Unlock()
			if inc != nil && inc.delay == op.DelayMs && time.Until(inc.due) < 100*time.Millisecond {
				// (only if this make was accepted: otherwise the id's
				// pending timer may be a 5 s one)
				for time.Now().Before(inc.due) {
				}
				h.cancel(op.Id, nil)
			}
		}
		if h.failed() {
			break
		}
		h.checkPending("after " + ev.JS(op))
	}
	// quiescence: every short timer that was not cancelled fires
	deadline := time.Now().Add(6 * time.Second)
	for !h.failed() {
		h.mu.Lock()
		waiting := 0
		for _, inc := range h.incs {
			if inc != nil && !inc.cancelled && !inc.dropped && inc.fired == 0 && inc.delay < 1000 {
				waiting++
			}
		}
		h.mu.Unlock()
		if waiting == 0 {
			break
		}
		if time.Now().After(deadline) {
			h.mu.Lock()
			for _, inc := range h.incs {
				if inc != nil && !inc.cancelled && !inc.dropped && inc.fired == 0 && inc.delay < 1000 {
					h.fail("timer %q (incarnation %d, delay %d ms) was accepted, never cancelled, and has not fired %v after it was due", inc.id, inc.n, inc.delay, time.Since(inc.due))
				}
			}
			h.mu.Unlock()
			break
		}
		time.Sleep(time.Millisecond)
	}
	if !h.failed() {
		// handlers may still make short timers: wait until nothing short
		// is outstanding for a little while
		for settle := 0; settle < 400; settle++ {
			time.Sleep(5 * time.Millisecond)
			h.mu.Lock()
			outstanding := h.handlers
			for _, inc := range h.incs {
				if inc != nil && !inc.cancelled && !inc.dropped && inc.fired == 0 && inc.delay < 1000 {
					outstanding++
				}
			}
			h.mu.Unlock()
			if outstanding == 0 {
				break
			}
		}
		// long timers are still pending and cancellable
		h.mu.Lock()
		var long []*incarnation
		for _, id := range timerIds {
			if inc := h.live[id]; inc != nil && !inc.cancelled && !inc.dropped && inc.fired == 0 && inc.delay >= 1000 {
				long = append(long, inc)
			}
		}
		h.mu.Unlock()
		h.checkPending("at quiescence")
		if c.Shutdown {
			// shutting the timers down cancels what is pending: the
			// pending set empties and nothing fires any more
			h.opMu.Lock()
			h.mu.Lock()
			for _, inc := range long {
				if time.Until(inc.due) > 500*time.Millisecond {
					inc.cancelled = true
				}
			}
			h.mu.Unlock()
			h.ts.Shutdown()
			for deadline := time.Now().Add(3 * time.Second); ; time.Sleep(time.Millisecond) {
				p, _ := h.pending()
				if len(p) == 0 {
					break
				}
				if time.Now().After(deadline) {
					h.failLocked("3 s after Shutdown the pending set is still %v", p)
					break
				}
			}
			h.opMu.Unlock()
			time.Sleep(5 * time.Millisecond)
			long = nil
			h.mu.Lock()
			h.shutdowns++
			h.mu.Unlock()
		}
		for _, inc := range long {
			far := time.Until(inc.due) > 500*time.Millisecond
			h.cancel(inc.id, nil)
			h.mu.Lock()
			missed := !inc.cancelled && h.bad == ""
			h.mu.Unlock()
			if !missed {
				continue
			}
			if far {
				h.failLocked("timer %q (incarnation %d, %d ms) is pending but could not be cancelled", inc.id, inc.n, inc.delay)
				continue
			}
			// the case took so long that this timer has become due: then
			// it must fire
			for deadline := inc.due.Add(3 * time.Second); time.Now().Before(deadline); time.Sleep(time.Millisecond) {
				h.mu.Lock()
				fired := inc.fired > 0
				h.mu.Unlock()
				if fired {
					break
				}
			}
			h.mu.Lock()
			if inc.fired == 0 {
				h.fail("timer %q (incarnation %d, %d ms) was due, could not be cancelled and did not fire", inc.id, inc.n, inc.delay)
			}
			h.mu.Unlock()
		}
		p, _ := h.pending()
		if len(p) > 0 {
			h.failLocked("at the end, with everything fired or cancelled, the pending set is %v", p)
		}
	}
	h.mu.Lock()
	defer h.mu.Unlock()
	if h.bad != "" {
		v.Failf("%s", h.bad)
		return
	}
	v.NonTrivial = h.hreq > 0 || h.idReuse > 0 || h.nearDue > 0 || h.drops > 0
	if h.drops > 0 {
		v.Class("request-context-ended")
	}
	if h.shutdowns > 0 {
		v.Class("shutdown")
	}
	if h.hreq > 0 {
		v.Class("requests-inside-handler")
	}
	if h.idReuse > 0 {
		v.Class("id-reuse")
	}
	if h.nearDue > 0 {
		v.Class("cancel-within-1ms-of-due")
	}
	return
}

func TestC17McrewTimers(t *testing.T) {
	ev.Run(t, ev.Opts{Property: "C17", Name: "mcrew", Quick: 150, Thorough: 5000, ShrinkTime: "15s",
		Rule: "mcrew Timers: histories of make / cancel / wait over ids {a,b,c} and delays {1,3,10,40 ms,5 s}, requests issued from inside the firing handler (incl. cancel(self), make(self)), and cancels aimed at the due instant; model: never early, at most once, never after a successful cancel, exactly once otherwise, pending set = accepted - fired - cancelled, id free from the moment it fires; non-trivial = a request inside a handler, id reuse, or a cancel within 1 ms of due"},
		genTimers, checkTimers)
}
