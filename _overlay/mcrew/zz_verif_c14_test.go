package main

import (
	"context"
	"encoding/json"
	"fmt"
	"os"
	"path/filepath"
	"runtime"
	"sort"
	"strings"
	"sync"
	"sync/atomic"
	"testing"
	"time"

	"pgregory.net/rapid"
	"verif/lib/ev"
	"verif/lib/jsongen"
)

// ---------------------------------------------------------------- C14 (mcrew)

const verifRecorderYAML = `
name: vrecorder
doc: records every message it sees and emits what the message lists under "emit", each stamped with the emitting machine's id
nodes:
  start:
    branching:
      type: message
      branches:
      - pattern: "?m"
        target: rec
  rec:
    action:
      interpreter: ecmascript
      source: |-
        var bs = _.bindings;
        var m = bs["?m"];
        var log = bs.log || [];
        log.push(m);
        if (m && typeof m === 'object' && m.emit) {
          for (var i = 0; i < m.emit.length; i++) {
            var e = JSON.parse(JSON.stringify(m.emit[i]));
            if (e && typeof e === 'object' && !Array.isArray(e)) { e.by = _.props.mid; }
            _.out(e);
          }
        }
        return {log: log};
    branching:
      branches:
      - target: start
`

type MRouteCase struct {
	Mids     []string      `json:"mids"`
	Messages []interface{} `json:"messages"`
	// Down[i]: the store is closed while message i (and what its
	// emissions cause) is processed: no machine state advances then,
	// but routing and the reporting of emissions go on as before
	Down []bool `json:"down,omitempty"`
}

var mMidPool = []string{"a", "b", "c", "timers", "ws", "m 1"}

func genMTo(t *rapid.T, mids []string, label string) (interface{}, bool) {
	switch k := rapid.IntRange(0, 9).Draw(t, label+".tok"); {
	case k <= 2:
		return nil, false
	case k <= 6:
		if len(mids) > 0 && rapid.IntRange(0, 4).Draw(t, label+".known") > 0 {
			return rapid.SampledFrom(mids).Draw(t, label+".mid"), true
		}
		return rapid.SampledFrom([]string{"nobody", "zz"}).Draw(t, label+".unknown"), true
	case k == 7:
		return rapid.SampledFrom([]string{"timers", "ws", "http"}).Draw(t, label+".svc"), true
	default:
		return rapid.SampledFrom([]interface{}{7.0, true}).Draw(t, label+".odd"), true
	}
}

func genMRouted(t *rapid.T, mids []string, depth int, label string, counter *int) interface{} {
	*counter++
	m := map[string]interface{}{"n": float64(*counter), "depth": float64(depth)}
	if to, have := genMTo(t, mids, label); have {
		m["to"] = to
	}
	if to, _ := m["to"].(string); to != "timers" && rapid.IntRange(0, 3).Draw(t, label+".bait") == 0 {
		// something the timers service would act on, had it been shown
		// this message
		m["makeTimer"] = map[string]interface{}{"id": fmt.Sprintf("bait%d", *counter), "in": "1h", "message": map[string]interface{}{"to": "nobody"}}
	}
	if depth < 2 && rapid.IntRange(0, 11).Draw(t, label+".burst") == 7 {
		// a burst for the websocket service: more messages at once than
		// the channel to its client holds (10)
		em := []interface{}{}
		for i := rapid.IntRange(12, 30).Draw(t, label+".nburst"); i > 0; i-- {
			*counter++
			em = append(em, map[string]interface{}{"n": float64(*counter), "depth": float64(depth + 1), "to": "ws"})
		}
		m["emit"] = em
	} else if depth < 2 {
		if fan := rapid.IntRange(0, 2).Draw(t, label+".fan"); fan > 0 {
			em := []interface{}{}
			for i := 0; i < fan; i++ {
				em = append(em, genMRouted(t, mids, depth+1, fmt.Sprintf("%s.%d", label, i), counter))
			}
			m["emit"] = em
		}
	}
	return m
}

func genMRoute(t *rapid.T) MRouteCase {
	c := MRouteCase{}
	perm := rapid.Permutation(mMidPool).Draw(t, "mids")
	c.Mids = append(c.Mids, perm[:rapid.IntRange(0, 4).Draw(t, "n")]...)
	counter := 0
	faults := rapid.IntRange(0, 2).Draw(t, "faults") == 0
	for i := rapid.IntRange(1, 4).Draw(t, "nm"); i > 0; i-- {
		c.Messages = append(c.Messages, genMRouted(t, c.Mids, 0, fmt.Sprintf("m%d", i), &counter))
		if faults {
			c.Down = append(c.Down, rapid.IntRange(0, 2).Draw(t, fmt.Sprintf("down%d", i)) == 0)
		}
	}
	return c
}

// mTargets: which machines must see the message, per mcrew's routing
// (a single id; reserved names go to services, never to machines).
func mTargets(mids []string, msg interface{}) (machines []string, service string) {
	m, ok := msg.(map[string]interface{})
	if !ok {
		return mids, ""
	}
	to, have := m["to"]
	if !have {
		return mids, ""
	}
	s, ok := to.(string)
	if !ok {
		return mids, ""
	}
	switch s {
	case "ws", "http", "timers":
		return nil, s
	}
	for _, id := range mids {
		if id == s {
			return []string{id}, ""
		}
	}
	return nil, ""
}

var mRouteSeq int
var mRouteMu sync.Mutex

func checkMRoute(c MRouteCase) (v ev.Verdict) {
	ctx, cancel := context.WithCancel(context.Background())
	defer cancel()
	mRouteMu.Lock()
	mRouteSeq++
	n := mRouteSeq
	mRouteMu.Unlock()
	dir := os.Getenv("VERIF_WORK")
	if dir == "" {
		dir = os.TempDir()
	}
	dir = filepath.Join(dir, fmt.Sprintf("c14-%d-%d", os.Getpid(), n))
	os.MkdirAll(dir, 0755)
	defer os.RemoveAll(dir)
	os.WriteFile(filepath.Join(dir, "vrecorder.yaml"), []byte(verifRecorderYAML), 0644)
	dbFile := ""
	if len(c.Down) > 0 {
		dbFile = filepath.Join(dir, "crew.db")
	}
	s, err := NewService(ctx, dir, dbFile, "")
	if err != nil {
		v.Failf("NewService: %v", err)
		return
	}
	storeDown := false
	defer func() {
		if dbFile != "" {
			if storeDown {
				s.store.Open(context.Background())
			}
			cancel()
			s.store.Close(context.Background())
		}
	}()
	s.Emitted = make(chan interface{}, 4096)
	s.Errors = make(chan interface{}, 4096)
	// the channel to the websocket client as WebSocketClient makes it
	// (ten places), and a client that takes its time
	s.wsClientC = make(chan interface{}, 10)
	var gotWS atomic.Int64
	wsDone := make(chan struct{})
	defer close(wsDone)
	go func() {
		for {
			select {
			case <-wsDone:
				return
			case <-s.wsClientC:
				gotWS.Add(1)
				time.Sleep(50 * time.Microsecond)
			}
		}
	}()
	for _, mid := range c.Mids {
		if err := s.AddMachine(ctx, "vrecorder", mid, "", nil); err != nil {
			v.Failf("AddMachine %q: %v", mid, err)
			return
		}
	}
	logs := func() map[string][]string {
		out := map[string][]string{}
		cp := s.crew.Copy()
		for id, m := range cp.Machines {
			if l, ok := m.State.Bs["log"].([]interface{}); ok {
				for _, x := range l {
					out[id] = append(out[id], jsongen.Canon(x))
				}
			}
		}
		return out
	}
	total := func(m map[string][]string) int {
		n := 0
		for _, l := range m {
			n += len(l)
		}
		return n
	}
	wantLog := map[string][]string{}
	var wantEmitted, gotEmitted []string
	drain := func() {
		for {
			select {
			case x := <-s.Emitted:
				gotEmitted = append(gotEmitted, jsongen.Canon(x))
				continue
			default:
			}
			return
		}
	}
	wantWS := 0
	routed, broadcast, reinjected, faulted := 0, 0, 0, 0
	for mi, msg := range c.Messages {
		down := mi < len(c.Down) && c.Down[mi]
		if dbFile != "" && down != storeDown {
			if down {
				s.store.Close(ctx)
			} else {
				s.store.Open(ctx)
			}
			storeDown = down
		}
		if down {
			faulted++
		}
		queue := []interface{}{msg}
		first := true
		for len(queue) > 0 {
			cur := queue[0]
			queue = queue[1:]
			if !first {
				reinjected++
			}
			first = false
			tg, svc := mTargets(c.Mids, cur)
			if svc == "ws" {
				wantWS++
			}
			if m, ok := cur.(map[string]interface{}); ok {
				if _, has := m["to"].(string); has {
					routed++
				} else {
					broadcast++
				}
			}
			for _, mid := range tg {
				if !down {
					// with the store down the machine's state (its
					// log) does not advance, but it still reacts
					wantLog[mid] = append(wantLog[mid], jsongen.Canon(cur))
				}
				if m, ok := cur.(map[string]interface{}); ok {
					if em, ok := m["emit"].([]interface{}); ok {
						for _, e := range em {
							e = stampBy(e, mid)
							wantEmitted = append(wantEmitted, jsongen.Canon(e))
							queue = append(queue, e)
						}
					}
				}
			}
		}
		goroutines := runtime.NumGoroutine()
		s.Process(ctx, jsongen.Copy(msg), nil)
		// emissions are re-processed asynchronously (one goroutine
		// each): wait for the expected volume and for those goroutines
		// to end, then a grace period to catch duplicates
		deadline := time.Now().Add(8 * time.Second)
		for time.Now().Before(deadline) {
			drain()
			if total(logs()) >= total(wantLog) && len(gotEmitted) >= len(wantEmitted) && runtime.NumGoroutine() <= goroutines {
				break
			}
			time.Sleep(time.Millisecond)
		}
		time.Sleep(10 * time.Millisecond)
		for i := 0; i < 200 && runtime.NumGoroutine() > goroutines; i++ {
			time.Sleep(5 * time.Millisecond)
		}
		drain()
		if len(gotEmitted) < len(wantEmitted) || total(logs()) < total(wantLog) {
			time.Sleep(500 * time.Millisecond) // slowness or loss? loss is a stable shortfall
			drain()
		}
	}
	got := logs()
	for _, mid := range c.Mids {
		g := append([]string{}, got[mid]...)
		w := append([]string{}, wantLog[mid]...)
		sort.Strings(g)
		sort.Strings(w)
		if strings.Join(g, "\n") != strings.Join(w, "\n") {
			v.Failf("machine %q received %d messages but must have received exactly %d (store down per message: %v)\n got  %v\n want %v", mid, len(g), len(w), c.Down, diffCounts(g, w), "")
			return
		}
	}
	sort.Strings(gotEmitted)
	sort.Strings(wantEmitted)
	if strings.Join(gotEmitted, "\n") != strings.Join(wantEmitted, "\n") {
		v.Failf("the service reported emitted messages\n %v\nbut the machines emitted exactly\n %v (store down per message: %v)", gotEmitted, wantEmitted, c.Down)
		return
	}
	for deadline := time.Now().Add(5 * time.Second); int(gotWS.Load()) < wantWS && time.Now().Before(deadline); {
		time.Sleep(time.Millisecond)
	}
	if int(gotWS.Load()) != wantWS {
		v.Failf("%d messages were addressed to the websocket service, it received %d", wantWS, gotWS.Load())
		return
	}
	if wantWS > 10 {
		v.Class("websocket-burst")
	}
	if js, err := json.Marshal(s.timers); err == nil && strings.Contains(string(js), "bait") {
		v.Failf("the timers service acted on a message that was not addressed to it: %s", js)
		return
	}
	if faulted > 0 {
		v.Class("store-down-during-a-message")
	}
	v.NonTrivial = len(c.Mids) >= 2 && routed >= 1 && broadcast >= 1 && reinjected >= 1
	for _, mid := range c.Mids {
		if mid == "timers" || mid == "ws" {
			v.Class("machine-with-reserved-name")
		}
	}
	return
}

func TestC14Mcrew(t *testing.T) {
	ev.Run(t, ev.Opts{Property: "C14", Name: "mcrew", Quick: 200, Thorough: 8000, ShrinkTime: "10s",
		Rule: "mcrew Service (no store) with 0-4 recorder machines (ids incl. reserved service names) x 1-4 messages whose 'to' is absent, a known/unknown id, a reserved service name or a non-string, with emission trees re-processed asynchronously; per machine the multiset of received messages, the multiset on Service.Emitted and the count on the websocket channel must equal the routing model's; non-trivial = >= 2 machines, >= 1 routed, >= 1 broadcast, >= 1 re-injected message"},
		genMRoute, checkMRoute)
}

// diffCounts summarises how two multisets differ.
func diffCounts(got, want []string) string {
	m := map[string]int{}
	for _, x := range got {
		m[x]++
	}
	for _, x := range want {
		m[x]--
	}
	var sb strings.Builder
	keys := make([]string, 0, len(m))
	for k := range m {
		keys = append(keys, k)
	}
	sort.Strings(keys)
	for _, k := range keys {
		if m[k] != 0 {
			fmt.Fprintf(&sb, "%+d x %s; ", m[k], ev.Trunc(k, 120))
		}
	}
	return sb.String()
}

// stampBy is what the recorder does to each message it emits: a copy that
// names the emitting machine, so that the emissions of different machines
// reacting to one message can be told apart.
func stampBy(e interface{}, mid string) interface{} {
	c := jsongen.Copy(e)
	if m, ok := c.(map[string]interface{}); ok {
		m["by"] = mid
	}
	return c
}
