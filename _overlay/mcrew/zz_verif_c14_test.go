package main

import (
	"context"
	"fmt"
	"os"
	"path/filepath"
	"sort"
	"strings"
	"sync"
	"testing"
	"time"

	"pgregory.net/rapid"
	"verif/lib/ev"
	"verif/lib/jsongen"
)

// ---------------------------------------------------------------- C14 (mcrew)

const verifRecorderYAML = `
name: vrecorder
doc: records every message it sees and emits what the message lists under "emit"
nodes:
  start:
    branching:
      type: message
      branches:
      - pattern: "?m"
        target: rec
  rec:
    action:
      interpreter: ecmascript
      source: |-
        var bs = _.bindings;
        var m = bs["?m"];
        var log = bs.log || [];
        log.push(m);
        if (m && typeof m === 'object' && m.emit) {
          for (var i = 0; i < m.emit.length; i++) { _.out(m.emit[i]); }
        }
        return {log: log};
    branching:
      branches:
      - target: start
`

type MRouteCase struct {
	Mids     []string      `json:"mids"`
	Messages []interface{} `json:"messages"`
}

var mMidPool = []string{"a", "b", "c", "timers", "ws", "m 1"}

func genMTo(t *rapid.T, mids []string, label string) (interface{}, bool) {
	switch k := rapid.IntRange(0, 9).Draw(t, label+".tok"); {
	case k <= 2:
		return nil, false
	case k <= 6:
		if len(mids) > 0 && rapid.IntRange(0, 4).Draw(t, label+".known") > 0 {
			return rapid.SampledFrom(mids).Draw(t, label+".mid"), true
		}
		return rapid.SampledFrom([]string{"nobody", "zz"}).Draw(t, label+".unknown"), true
	case k == 7:
		return rapid.SampledFrom([]string{"timers", "ws", "http"}).Draw(t, label+".svc"), true
	default:
		return rapid.SampledFrom([]interface{}{7.0, true}).Draw(t, label+".odd"), true
	}
}

func genMRouted(t *rapid.T, mids []string, depth int, label string, counter *int) interface{} {
	*counter++
	m := map[string]interface{}{"n": float64(*counter), "depth": float64(depth)}
	if to, have := genMTo(t, mids, label); have {
		m["to"] = to
	}
	if depth < 2 {
		if fan := rapid.IntRange(0, 2).Draw(t, label+".fan"); fan > 0 {
			em := []interface{}{}
			for i := 0; i < fan; i++ {
				em = append(em, genMRouted(t, mids, depth+1, fmt.Sprintf("%s.%d", label, i), counter))
			}
			m["emit"] = em
		}
	}
	return m
}

func genMRoute(t *rapid.T) MRouteCase {
	c := MRouteCase{}
	perm := rapid.Permutation(mMidPool).Draw(t, "mids")
	c.Mids = append(c.Mids, perm[:rapid.IntRange(0, 4).Draw(t, "n")]...)
	counter := 0
	for i := rapid.IntRange(1, 4).Draw(t, "nm"); i > 0; i-- {
		c.Messages = append(c.Messages, genMRouted(t, c.Mids, 0, fmt.Sprintf("m%d", i), &counter))
	}
	return c
}

// mTargets: which machines must see the message, per mcrew's routing
// (a single id; reserved names go to services, never to machines).
func mTargets(mids []string, msg interface{}) (machines []string, service string) {
	m, ok := msg.(map[string]interface{})
	if !ok {
		return mids, ""
	}
	to, have := m["to"]
	if !have {
		return mids, ""
	}
	s, ok := to.(string)
	if !ok {
		return mids, ""
	}
	switch s {
	case "ws", "http", "timers":
		return nil, s
	}
	for _, id := range mids {
		if id == s {
			return []string{id}, ""
		}
	}
	return nil, ""
}

var mRouteSeq int
var mRouteMu sync.Mutex

func checkMRoute(c MRouteCase) (v ev.Verdict) {
	ctx, cancel := context.WithCancel(context.Background())
	defer cancel()
	mRouteMu.Lock()
	mRouteSeq++
	n := mRouteSeq
	mRouteMu.Unlock()
	dir := os.Getenv("VERIF_WORK")
	if dir == "" {
		dir = os.TempDir()
	}
	dir = filepath.Join(dir, fmt.Sprintf("c14-%d-%d", os.Getpid(), n))
	os.MkdirAll(dir, 0755)
	defer os.RemoveAll(dir)
	os.WriteFile(filepath.Join(dir, "vrecorder.yaml"), []byte(verifRecorderYAML), 0644)
	s, err := NewService(ctx, dir, "", "")
	if err != nil {
		v.Failf("NewService: %v", err)
		return
	}
	s.Emitted = make(chan interface{}, 4096)
	s.Errors = make(chan interface{}, 4096)
	s.wsClientC = make(chan interface{}, 4096)
	for _, mid := range c.Mids {
		if err := s.AddMachine(ctx, "vrecorder", mid, "", nil); err != nil {
			v.Failf("AddMachine %q: %v", mid, err)
			return
		}
	}
	wantLog := map[string][]string{}
	var wantEmitted []string
	wantWS := 0
	routed, broadcast, reinjected := 0, 0, 0
	for _, msg := range c.Messages {
		queue := []interface{}{msg}
		first := true
		for len(queue) > 0 {
			cur := queue[0]
			queue = queue[1:]
			if !first {
				reinjected++
			}
			first = false
			tg, svc := mTargets(c.Mids, cur)
			if svc == "ws" {
				wantWS++
			}
			if m, ok := cur.(map[string]interface{}); ok {
				if _, has := m["to"].(string); has {
					routed++
				} else {
					broadcast++
				}
			}
			for _, mid := range tg {
				wantLog[mid] = append(wantLog[mid], jsongen.Canon(cur))
				if m, ok := cur.(map[string]interface{}); ok {
					if em, ok := m["emit"].([]interface{}); ok {
						for _, e := range em {
							wantEmitted = append(wantEmitted, jsongen.Canon(e))
							queue = append(queue, e)
						}
					}
				}
			}
		}
		if _, err := s.Process(ctx, jsongen.Copy(msg), nil); err != nil {
			v.Failf("Process: %v", err)
			return
		}
	}
	logs := func() map[string][]string {
		out := map[string][]string{}
		cp := s.crew.Copy()
		for id, m := range cp.Machines {
			if l, ok := m.State.Bs["log"].([]interface{}); ok {
				for _, x := range l {
					out[id] = append(out[id], jsongen.Canon(x))
				}
			}
		}
		return out
	}
	total := func(m map[string][]string) int {
		n := 0
		for _, l := range m {
			n += len(l)
		}
		return n
	}
	// emissions are re-processed asynchronously: wait for the expected
	// volume, then a grace period to catch duplicates
	deadline := time.Now().Add(5 * time.Second)
	for total(logs()) < total(wantLog) && time.Now().Before(deadline) {
		time.Sleep(time.Millisecond)
	}
	time.Sleep(30 * time.Millisecond)
	got := logs()
	if total(got) < total(wantLog) && time.Now().After(deadline) {
		// could be slowness or loss; loss shows as a stable shortfall
		time.Sleep(500 * time.Millisecond)
		got = logs()
	}
	for _, mid := range c.Mids {
		g := append([]string{}, got[mid]...)
		w := append([]string{}, wantLog[mid]...)
		sort.Strings(g)
		sort.Strings(w)
		if strings.Join(g, "\n") != strings.Join(w, "\n") {
			v.Failf("machine %q received\n %v\nbut must have received exactly\n %v", mid, got[mid], wantLog[mid])
			return
		}
	}
	var gotEmitted []string
	for {
		select {
		case x := <-s.Emitted:
			gotEmitted = append(gotEmitted, jsongen.Canon(x))
			continue
		default:
		}
		break
	}
	sort.Strings(gotEmitted)
	sort.Strings(wantEmitted)
	if strings.Join(gotEmitted, "\n") != strings.Join(wantEmitted, "\n") {
		v.Failf("the service reported emitted messages\n %v\nbut the machines emitted exactly\n %v", gotEmitted, wantEmitted)
		return
	}
	if len(s.wsClientC) != wantWS {
		v.Failf("%d messages were addressed to the websocket service, it received %d", wantWS, len(s.wsClientC))
		return
	}
	v.NonTrivial = len(c.Mids) >= 2 && routed >= 1 && broadcast >= 1 && reinjected >= 1
	for _, mid := range c.Mids {
		if mid == "timers" || mid == "ws" {
			v.Class("machine-with-reserved-name")
		}
	}
	return
}

func TestC14Mcrew(t *testing.T) {
	ev.Run(t, ev.Opts{Property: "C14", Name: "mcrew", Quick: 200, Thorough: 8000, ShrinkTime: "10s",
		Rule: "mcrew Service (no store) with 0-4 recorder machines (ids incl. reserved service names) x 1-4 messages whose 'to' is absent, a known/unknown id, a reserved service name or a non-string, with emission trees re-processed asynchronously; per machine the multiset of received messages, the multiset on Service.Emitted and the count on the websocket channel must equal the routing model's; non-trivial = >= 2 machines, >= 1 routed, >= 1 broadcast, >= 1 re-injected message"},
		genMRoute, checkMRoute)
}
