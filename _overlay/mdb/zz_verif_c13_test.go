package main

// Injected into package main of cmd/mdb by /verif/vcheck.py with
// `go test -overlay`; nothing is written into /repo.

import (
	"context"
	"encoding/json"
	"fmt"
	"os"
	"path/filepath"
	"strings"
	"testing"

	"github.com/Comcast/sheens/core"
	"github.com/Comcast/sheens/crew"
	"github.com/Comcast/sheens/match"
	yaml "gopkg.in/yaml.v2"
	"pgregory.net/rapid"
	"verif/lib/ev"
	"verif/lib/jsongen"
	"verif/lib/sm"
)

// ---------------------------------------------------------------- C13 (mdb's own loader)
//
// Host.GetSpec is how mdb turns a specification file into a machine; it
// takes JSON files as well as YAML files.  The same specification written
// as YAML with inline patterns (block and flow style), with patterns as
// JSON text, and as a JSON document must load there and behave like the
// specification built from Go structures.

type MdbSpecCase struct {
	Spec     *sm.ASpec              `json:"spec"`
	Node     string                 `json:"node"`
	Bs       map[string]interface{} `json:"bs"`
	Messages []interface{}          `json:"messages"`
}

func genMdbSpec(t *rapid.T) MdbSpecCase {
	o := sm.SpecOpts{Deterministic: true, Fail: 2, GuardFail: 1, Emit: true, UserErrorNode: true, Derive: true, ArrayVar: true, IneqBound: true, Ext: true}
	var a *sm.ASpec
	if rapid.Bool().Draw(t, "lively") {
		a = sm.GenLivelySpec(t, o)
	} else {
		a = sm.GenSpec(t, o)
	}
	c := MdbSpecCase{Spec: a, Node: rapid.SampledFrom(a.NodeNames()).Draw(t, "at"), Bs: sm.GenBindings(t, "bs")}
	for i := rapid.IntRange(1, 5).Draw(t, "nm"); i > 0; i-- {
		c.Messages = append(c.Messages, sm.GenMessageFor(t, a, fmt.Sprintf("m%d", i)))
	}
	return c
}

func verifTrace(spec core.Specter, c MdbSpecCase) string {
	st := &core.State{NodeName: c.Node, Bs: match.Bindings(jsongen.CopyMap(c.Bs))}
	var sb strings.Builder
	for _, m := range c.Messages {
		var w *core.Walked
		var err error
		func() {
			defer func() {
				if x := recover(); x != nil {
					err = fmt.Errorf("panic: %v", x)
				}
			}()
			w, err = spec.Spec().Walk(context.Background(), st, []interface{}{jsongen.Copy(m)}, &core.Control{Limit: 30}, nil)
		}()
		if err != nil || w == nil {
			sb.WriteString("walk error;")
			return sb.String()
		}
		if to := w.To(); to != nil {
			st = to
		}
		var em []interface{}
		w.DoEmitted(func(x interface{}) error { em = append(em, x); return nil })
		fmt.Fprintf(&sb, "%s %s %s;", st.NodeName, jsongen.Canon(sm.Scrub(map[string]interface{}(st.Bs))), jsongen.Canon(em))
	}
	return sb.String()
}

func checkMdbSpec(c MdbSpecCase) (v ev.Verdict) {
	ref, rerr := c.Spec.Compiled()
	dir := os.Getenv("VERIF_WORK")
	if dir == "" {
		dir = os.TempDir()
	}
	dir, err := os.MkdirTemp(dir, "c13mcrew-")
	if err != nil {
		v.Failf("temp dir: %v", err)
		return
	}
	defer os.RemoveAll(dir)
	svc, err := NewHost(dir, "")
	if err != nil {
		v.Failf("NewHost: %v", err)
		return
	}
	type rendering struct {
		name string
		text []byte
	}
	var rs []rendering
	for _, jsonSyntax := range []bool{false, true} {
		suffix := ""
		if jsonSyntax {
			suffix = "-json-syntax"
		}
		// a JSON document (JSON key names); mdb recognises it by its
		// first byte
		jdoc, _ := json.Marshal(c.Spec.Doc(false, jsonSyntax))
		rs = append(rs, rendering{"json-document" + suffix, jdoc})
		doc := c.Spec.Doc(true, jsonSyntax)
		flow, _ := json.Marshal(doc) // flow-style YAML is JSON text
		// (not offered to mdb as such: a file that starts with '{' is
		// taken for a JSON document there)
		var generic interface{}
		if yaml.Unmarshal(flow, &generic) == nil {
			if block, err := yaml.Marshal(generic); err == nil {
				rs = append(rs, rendering{"block" + suffix, block})
			}
		}
	}
	want := ""
	if rerr == nil {
		want = verifTrace(ref, c)
	}
	for i, r := range rs {
		name := fmt.Sprintf("spec%d", i)
		if err := os.WriteFile(filepath.Join(dir, name), r.text, 0644); err != nil {
			v.Failf("writing the spec file: %v", err)
			return
		}
		got, gerr := svc.GetSpec(context.Background(), &crew.SpecSource{Name: name})
		if (gerr == nil) != (rerr == nil) {
			v.Failf("mdb's GetSpec on the %s rendering: %v; the same specification from Go structures: %v\n%s", r.name, gerr, rerr, ev.Trunc(string(r.text), 700))
			return
		}
		if gerr != nil {
			continue
		}
		if tr := verifTrace(got, c); tr != want {
			v.Failf("the machine mdb loads from the %s rendering behaves differently from the Go-built one:\n%s\nvs\n%s", r.name, ev.Trunc(tr, 600), ev.Trunc(want, 600))
			return
		}
	}
	v.NonTrivial = rerr == nil && len(rs) >= 3
	v.Class(fmt.Sprintf("renderings:%d", len(rs)))
	return
}

func TestC13Mdb(t *testing.T) {
	ev.Run(t, ev.Opts{Property: "C13", Name: "mdb", Quick: 600, Thorough: 30000,
		Rule: "mdb's own loader (Host.GetSpec): generated specifications written as JSON documents and as block-style YAML files, with inline and with JSON-text patterns; each must load iff the Go-built specification compiles and must then walk 1-5 messages to the same states and emissions; non-trivial = the specification compiles and >= 3 renderings were loaded"},
		genMdbSpec, checkMdbSpec)
}
