package main

// Injected into package main of cmd/mdb by /verif/vcheck.py with
// `go test -overlay`; nothing is written into /repo.

import (
	"bytes"
	"context"
	"encoding/json"
	"fmt"
	"os"
	"path/filepath"
	"testing"
	"time"

	"github.com/Comcast/sheens/core"
	"github.com/Comcast/sheens/crew"
	"github.com/Comcast/sheens/match"
	"pgregory.net/rapid"
	"verif/lib/ev"
	"verif/lib/jsongen"
	"verif/lib/sm"
)

// ---------------------------------------------------------------- C07 (the mdb host)
//
// The same totality as in checks/core, one level up: mdb's Host.Process
// (and the rendering mdb does of what it returns) for machines whose
// actions and guards fail in the generated ways, at known and unknown
// nodes, with and without bindings, with and without control settings.

type MdbTotalMachine struct {
	Mid   string                 `json:"mid"`
	Node  string                 `json:"node"`
	Bs    map[string]interface{} `json:"bs"`
	NilBs bool                   `json:"nilBs,omitempty"`
}

type MdbTotalCase struct {
	Spec     *sm.ASpec         `json:"spec"`
	Machines []MdbTotalMachine `json:"machines"`
	Messages []interface{}     `json:"messages"`
	// Limits: per message; 1000 = no control settings given (nil)
	Limits []int `json:"limits"`
}

func genMdbTotal(t *rapid.T) MdbTotalCase {
	o := sm.SpecOpts{Deterministic: true, Fail: 3, GuardFail: 2, Emit: true, UserErrorNode: true, Derive: true, ArrayVar: true}
	var a *sm.ASpec
	if rapid.Bool().Draw(t, "lively") {
		a = sm.GenLivelySpec(t, o)
	} else {
		a = sm.GenSpec(t, o)
	}
	c := MdbTotalCase{Spec: a}
	for i := rapid.IntRange(1, 3).Draw(t, "machines"); i > 0; i-- {
		m := MdbTotalMachine{Mid: fmt.Sprintf("m%d", i), Node: rapid.SampledFrom(a.NodeNames()).Draw(t, fmt.Sprintf("at%d", i)), Bs: sm.GenBindings(t, fmt.Sprintf("bs%d", i))}
		if rapid.IntRange(0, 7).Draw(t, fmt.Sprintf("odd%d", i)) == 0 {
			m.Node = rapid.SampledFrom([]string{"unknown", "error", ""}).Draw(t, fmt.Sprintf("oddat%d", i))
		}
		if rapid.IntRange(0, 5).Draw(t, fmt.Sprintf("nil%d", i)) == 0 {
			m.NilBs, m.Bs = true, map[string]interface{}{}
		}
		c.Machines = append(c.Machines, m)
	}
	for i := rapid.IntRange(1, 4).Draw(t, "messages"); i > 0; i-- {
		msg := sm.GenMessageFor(t, a, fmt.Sprintf("msg%d", i))
		if mm, is := msg.(map[string]interface{}); is && rapid.Bool().Draw(t, fmt.Sprintf("to%d", i)) {
			mm["to"] = rapid.SampledFrom([]string{"m1", "m2", "m3", "nobody"}).Draw(t, fmt.Sprintf("tom%d", i))
		}
		c.Messages = append(c.Messages, msg)
		c.Limits = append(c.Limits, rapid.SampledFrom([]int{1000, 1000, 0, -1, 1, 2, 100}).Draw(t, fmt.Sprintf("limit%d", i)))
	}
	return c
}

func checkMdbTotal(c MdbTotalCase) (v ev.Verdict) {
	if _, err := c.Spec.Compiled(); err != nil {
		v.Skip, v.SkipReason = true, "spec does not compile"
		return
	}
	dir := os.Getenv("VERIF_WORK")
	if dir == "" {
		dir = os.TempDir()
	}
	dir, err := os.MkdirTemp(dir, "c07mdb-")
	if err != nil {
		v.Failf("temp dir: %v", err)
		return
	}
	defer os.RemoveAll(dir)
	h, err := NewHost(dir, "")
	if err != nil {
		v.Failf("NewHost: %v", err)
		return
	}
	jdoc, _ := json.Marshal(c.Spec.Doc(false, false))
	if err := os.WriteFile(filepath.Join(dir, "vtotal"), jdoc, 0644); err != nil {
		v.Failf("writing the spec: %v", err)
		return
	}
	ctx := context.Background()
	for _, m := range c.Machines {
		// as mdb's "set <mid> spec <file>", "set <mid> node", "set <mid> bs" do
		src := &crew.SpecSource{Name: "vtotal"}
		spec, err := h.GetSpec(ctx, src)
		if err != nil {
			v.Skip, v.SkipReason = true, "mdb does not load the spec (C13's subject)"
			return
		}
		st := &core.State{NodeName: m.Node, Bs: match.Bindings(jsongen.CopyMap(m.Bs))}
		if m.NilBs {
			st.Bs = nil
		}
		h.crew.Machines[m.Mid] = &crew.Machine{Id: m.Mid, State: st, SpecSource: src, Specter: spec}
	}
	odd := 0
	for i, msg := range c.Messages {
		var ctl *core.Control
		if c.Limits[i] != 1000 {
			ctl = &core.Control{Limit: c.Limits[i]}
		}
		if ctl == nil || ctl.Limit <= 0 {
			odd++
		}
		panicked := ""
		var ws map[string]*core.Walked
		var perr error
		done := make(chan struct{})
		go func() {
			defer close(done)
			defer func() {
				if x := recover(); x != nil {
					panicked = fmt.Sprint(x)
				}
			}()
			ws, perr = h.Process(ctx, jsongen.Copy(msg), ctl)
			if perr == nil {
				Render(&bytes.Buffer{}, "# ", "", ws)
			}
		}()
		select {
		case <-done:
		case <-time.After(20 * time.Second):
			v.Failf("message %d %s (limit %d) did not return within 20 s", i, jsongen.Canon(msg), c.Limits[i])
			return
		}
		if panicked != "" {
			v.Failf("message %d %s (limit %d; 1000 = no control settings) crashed the host: %s", i, jsongen.Canon(msg), c.Limits[i], panicked)
			return
		}
		if perr == nil {
			for mid, w := range ws {
				if w == nil {
					v.Failf("message %d: no error, and no walk for machine %s", i, mid)
					return
				}
			}
		}
		free := make(chan struct{})
		go func() { h.crew.Lock(); h.crew.Unlock(); close(free) }()
		select {
		case <-free:
		case <-time.After(10 * time.Second):
			v.Failf("after message %d the crew stays locked", i)
			return
		}
	}
	if odd > 0 {
		v.Class("no-or-odd-control-settings")
	}
	v.NonTrivial = odd > 0
	return
}

func TestC07Mdb(t *testing.T) {
	ev.Run(t, ev.Opts{Property: "C07", Name: "mdb", Quick: 1200, Thorough: 40000, Journal: true,
		Rule: "the mdb host: 1-3 machines of a generated specification loaded by Host.GetSpec (throwing / null- and non-object-returning actions and guards, unknown nodes, absent bindings), 1-4 messages through Host.Process with no control settings or a limit of 0, -1, 1, 2, 100, and mdb's Render of the result; every call must return (no panic, no hang), a call without error has a walk for every processed machine, and the crew lock is free afterwards; non-trivial = at least one call had no or a non-positive limit"},
		genMdbTotal, checkMdbTotal)
}
