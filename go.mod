module verif

go 1.23

toolchain go1.23.5

require (
	github.com/Comcast/sheens v0.0.0-00010101000000-000000000000
	pgregory.net/rapid v1.3.0
)

replace github.com/Comcast/sheens => /repo
