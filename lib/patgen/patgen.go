// Package patgen generates patterns of the supported fragment together
// with initial bindings, an assignment of values to the variables, and
// messages built around the instantiated pattern ("plant and distract").
package patgen

import (
	"fmt"
	"sort"

	"pgregory.net/rapid"
	"verif/lib/jsongen"
	"verif/lib/refmatch"
)

// Opts configure pattern generation.
type Opts struct {
	Depth int
	Width int
	// Strict keeps the case inside the domain for which completeness
	// is claimed (C02); without it anything in the supported fragment
	// is produced (C01, C03).
	Strict bool
	// PlainOnly: only plain and anonymous variables, each named
	// variable at most once, nothing pre-bound.
	PlainOnly bool
}

var (
	plainVars = []string{"?x", "?y", "?z", "?n"}
	optVars   = []string{"??o", "??p"}
	// in strict mode one inequality variable per plain name
	ineqVarsStrict = []string{"?<n", "?<=i", "?>m", "?>=j", "?!=k"}
	ineqVarsLoose  = []string{"?<n", "?<=n", "?>n", "?>=m", "?!=m", "?<m"}
	constKeys      = []string{"a", "b", "c", "d", "e"}
	extraKeys      = []string{"u", "v", "w", "k!", "", "x y"}
	plantKeys      = []string{"p", "q", "r", "s"}
)

type gen struct {
	t     *rapid.T
	o     Opts
	used  map[string]int // named variables used so far
	n     int
	value jsongen.Opts
}

func (g *gen) label(s string) string {
	g.n++
	return fmt.Sprintf("%s%d", s, g.n)
}

func (g *gen) variable() string {
	t := g.t
	k := rapid.IntRange(0, 9).Draw(t, g.label("vk"))
	var pool []string
	if !g.o.PlainOnly && len(g.used) > 0 && rapid.IntRange(0, 3).Draw(t, g.label("re")) == 0 {
		// use a variable again
		var usedVars []string
		for v, n := range g.used {
			if n > 0 {
				usedVars = append(usedVars, v)
			}
		}
		sort.Strings(usedVars)
		if len(usedVars) > 0 {
			v := rapid.SampledFrom(usedVars).Draw(t, g.label("rv"))
			g.used[v]++
			return v
		}
	}
	switch {
	case g.o.PlainOnly:
		if k == 0 {
			return "?"
		}
		// unused named variables only
		for _, v := range []string{"?x", "?y", "?z", "?n", "?w", "?u"} {
			if g.used[v] == 0 {
				pool = append(pool, v)
			}
		}
		if len(pool) == 0 {
			return "?"
		}
	case k <= 4:
		pool = plainVars
	case k == 5:
		return "?"
	case k <= 7:
		pool = optVars
	default:
		if g.o.Strict {
			pool = ineqVarsStrict
		} else {
			pool = ineqVarsLoose
		}
	}
	v := rapid.SampledFrom(pool).Draw(t, g.label("v"))
	g.used[v]++
	return v
}

func (g *gen) constScalar() interface{} {
	return jsongen.Scalar(g.t, g.value, g.label("c"))
}

// pattern draws a pattern of depth at most d.
func (g *gen) pattern(d int) interface{} {
	t := g.t
	if d <= 0 {
		if rapid.IntRange(0, 2).Draw(t, g.label("leaf")) == 0 {
			return g.constScalar()
		}
		return g.variable()
	}
	k := rapid.IntRange(0, 13).Draw(t, g.label("pk"))
	if k >= 12 {
		k -= 5 // objects and arrays get extra weight
	}
	switch {
	case k <= 1:
		return g.constScalar()
	case k <= 3:
		return g.variable()
	case k == 4:
		// variable-free structure
		vo := g.value
		vo.Depth = d
		vo.SetLike = true
		return jsongen.Value(t, vo, g.label("cs"))
	case k <= 7:
		n := rapid.IntRange(0, g.o.Width).Draw(t, g.label("on"))
		m := map[string]interface{}{}
		for i := 0; i < n; i++ {
			key := rapid.SampledFrom(constKeys).Draw(t, g.label("ok"))
			if _, have := m[key]; have {
				continue
			}
			m[key] = g.pattern(d - 1)
		}
		return m
	case k == 8:
		key := g.variable()
		_, _, isIneq := refmatch.Ineq(key)
		if refmatch.IsOptional(key) || ((isIneq || key == "?n") && g.o.Strict) {
			// a property name is a string: an inequality
			// variable bound to a number can never match one,
			// and "optional" means nothing for a sole key
			g.used[key]--
			key = "?x"
			g.used[key]++
		}
		return map[string]interface{}{key: g.pattern(d - 1)}
	default:
		n := rapid.IntRange(0, g.o.Width).Draw(t, g.label("an"))
		a := []interface{}{}
		haveVar := false
		for i := 0; i < n; i++ {
			var x interface{}
			if !haveVar && rapid.IntRange(0, 2).Draw(t, g.label("av")) == 0 {
				x = g.variable()
				haveVar = true
			} else {
				x = g.pattern(d - 1)
				if s, is := x.(string); is && refmatch.IsVar(s) {
					if haveVar {
						g.used[s]--
						continue
					}
					haveVar = true
				}
			}
			if jsongen.IsScalar(x) && jsongen.ContainsCanon(a, x) {
				if s, is := x.(string); is && refmatch.IsVar(s) {
					g.used[s]--
				}
				continue
			}
			a = append(a, x)
		}
		return a
	}
}

// Pattern draws a pattern.
func Pattern(t *rapid.T, o Opts) interface{} {
	if o.Width == 0 {
		o.Width = 3
	}
	g := &gen{t: t, o: o, used: map[string]int{}, value: jsongen.Opts{Depth: 1, Width: 3, SetLike: true}}
	return g.pattern(o.Depth)
}

// occ describes how a variable occurs in a pattern.
type occ struct {
	count   int
	inArray bool
	asKey   bool
	// arrConsts: canonical forms of scalar constants of arrays in
	// which the variable is a direct member
	arrConsts map[string]bool
}

func occurrences(p interface{}, acc map[string]*occ) {
	get := func(v string) *occ {
		o := acc[v]
		if o == nil {
			o = &occ{arrConsts: map[string]bool{}}
			acc[v] = o
		}
		return o
	}
	switch pv := p.(type) {
	case string:
		if refmatch.IsVar(pv) {
			get(pv).count++
		}
	case map[string]interface{}:
		for k, x := range pv {
			if refmatch.IsVar(k) {
				o := get(k)
				o.count++
				o.asKey = true
			}
			occurrences(x, acc)
		}
	case []interface{}:
		for _, x := range pv {
			if s, is := x.(string); is && refmatch.IsVar(s) {
				o := get(s)
				o.inArray = true
				for _, y := range pv {
					if jsongen.IsScalar(y) {
						if ys, is := y.(string); is && refmatch.IsVar(ys) {
							continue
						}
						o.arrConsts[jsongen.Canon(y)] = true
					}
				}
			}
			occurrences(x, acc)
		}
	}
}

// Planted is a generated completeness case.
type Planted struct {
	Pattern  interface{}            `json:"pattern"`
	Bindings map[string]interface{} `json:"bindings"`
	// Sigma: the assignment the message was built around; the values
	// expected in some returned set of bindings.
	Sigma   map[string]interface{} `json:"sigma"`
	Message interface{}            `json:"message"`
	// Instance is the instantiated pattern before distractors were
	// added (for the non-triviality rule and for mutation).
	Instance    interface{} `json:"instance"`
	Distractors int         `json:"distractors"`
	NearMisses  int         `json:"near_misses"`
}

type planter struct {
	t       *rapid.T
	o       Opts
	n       int
	occ     map[string]*occ
	B       map[string]interface{}
	sigma   map[string]interface{}
	omitted map[string]bool
	plain   bool // do not add anything (build the bare instance)
	distr   int
	near    int
	vopt    jsongen.Opts
}

func (pl *planter) label(s string) string {
	pl.n++
	return fmt.Sprintf("%s%d", s, pl.n)
}

func plantScalar(t *rapid.T, label string) interface{} {
	if rapid.Bool().Draw(t, label+"k") {
		return rapid.SampledFrom(jsongen.PlantStrs).Draw(t, label+"s")
	}
	return rapid.SampledFrom(jsongen.PlantNums).Draw(t, label+"n")
}

// valueFor draws a value for a variable given how it occurs.
func (pl *planter) valueFor(v string, prebound bool) interface{} {
	t := pl.t
	o := pl.occ[v]
	if o == nil {
		o = &occ{}
	}
	if o.asKey {
		if pl.o.Strict || rapid.IntRange(0, 9).Draw(t, pl.label("ks")) > 0 {
			return rapid.SampledFrom(plantKeys).Draw(t, pl.label("kv"))
		}
	}
	scalar := false
	if pl.o.Strict && !prebound && o.count >= 2 {
		scalar = true
	}
	if !scalar && rapid.IntRange(0, 2).Draw(t, pl.label("st")) == 0 {
		vo := pl.vopt
		vo.Depth = 2
		val := jsongen.Value(t, vo, pl.label("sv"))
		if !jsongen.IsScalar(val) {
			return val
		}
	}
	if o.inArray || rapid.Bool().Draw(t, pl.label("pp")) {
		return plantScalar(t, pl.label("ps"))
	}
	return jsongen.Scalar(t, pl.vopt, pl.label("sc"))
}

// ineqValue picks a number in relation op to b.
func (pl *planter) ineqValue(op string, b float64) float64 {
	cands := map[string][]float64{
		"<":  {b - 1, b - 0.5, b - 100},
		"<=": {b, b - 1, b - 0.5},
		">":  {b + 1, b + 0.5, b + 100},
		">=": {b, b + 1, b + 0.5},
		"!=": {b + 1, b - 1, b + 0.5},
	}[op]
	return rapid.SampledFrom(cands).Draw(pl.t, pl.label("iq"))
}

var ineqBounds = []float64{5, 20, 12.5, -3}

// Plant draws a complete case for pattern p.
func Plant(t *rapid.T, p interface{}, o Opts) Planted {
	pl := &planter{t: t, o: o, occ: map[string]*occ{}, B: map[string]interface{}{},
		sigma: map[string]interface{}{}, omitted: map[string]bool{},
		vopt: jsongen.Opts{Depth: 2, Width: 3, SetLike: true}}
	occurrences(p, pl.occ)
	vars := make([]string, 0, len(pl.occ))
	for v := range pl.occ {
		vars = append(vars, v)
	}
	sort.Strings(vars)

	// 1. initial bindings
	if !o.PlainOnly {
		for _, v := range vars {
			if refmatch.IsAnon(v) {
				continue
			}
			_, plainName, isIneq := refmatch.Ineq(v)
			pre := rapid.IntRange(0, 3).Draw(t, pl.label("pre")) == 0
			if isIneq {
				// README: the input bindings should include a
				// binding for an inequality variable.
				pre = rapid.IntRange(0, 9).Draw(t, pl.label("ipre")) > 0
				if pl.occ[v].count >= 2 {
					pre = true
				}
				if o.Strict {
					if _, have := pl.occ[plainName]; have && !pre {
						pre = true
					}
				}
			}
			if !pre {
				continue
			}
			if isIneq && rapid.IntRange(0, 6).Draw(t, pl.label("inum")) > 0 {
				pl.B[v] = rapid.SampledFrom(ineqBounds).Draw(t, pl.label("ib"))
				continue
			}
			if o.Strict {
				// the plain counterpart of an active inequality
				// variable is not pre-bound in strict mode
				skip := false
				for _, w := range vars {
					if _, pn, is := refmatch.Ineq(w); is && pn == v {
						skip = true
					}
				}
				if skip {
					continue
				}
			}
			pl.B[v] = pl.valueFor(v, true)
			if _, num := pl.B[v].(float64); num && isIneq {
				// "bound to a non-number" is what this branch is for
				pl.B[v] = rapid.SampledFrom(jsongen.PlantStrs).Draw(t, pl.label("inn"))
			}
		}
		// unrelated bindings
		for i := rapid.IntRange(0, 2).Draw(t, pl.label("xb")); i > 0; i-- {
			k := rapid.SampledFrom([]string{"?unused", "?q", "plain", "k!", "?<zz"}).Draw(t, pl.label("xk"))
			pl.B[k] = jsongen.Value(t, pl.vopt, pl.label("xv"))
		}
	}

	// 2. sigma
	for _, v := range vars {
		if refmatch.IsAnon(v) {
			continue
		}
		if bv, have := pl.B[v]; have {
			if op, plainName, is := refmatch.Ineq(v); is {
				if b, num := bv.(float64); num {
					if pb, have := pl.B[plainName]; have {
						// (loose mode only) given counterpart
						pl.sigma[plainName] = pb
					} else if _, have := pl.sigma[plainName]; !have || o.Strict {
						pl.sigma[plainName] = pl.ineqValue(op, b)
					}
					pl.sigma[v] = bv
					continue
				}
			}
			pl.sigma[v] = bv
			continue
		}
		if refmatch.IsOptional(v) && rapid.IntRange(0, 2).Draw(t, pl.label("om")) == 0 {
			pl.omitted[v] = true
			continue
		}
		if _, have := pl.sigma[v]; have {
			continue // counterpart of an active inequality variable
		}
		pl.sigma[v] = pl.valueFor(v, false)
	}
	// an active inequality variable fixes its counterpart even when
	// the counterpart sorts earlier
	for _, v := range vars {
		if op, plainName, is := refmatch.Ineq(v); is {
			if b, num := pl.B[v].(float64); num {
				if _, pre := pl.B[plainName]; !pre {
					if cur, ok := pl.sigma[plainName].(float64); !ok || !relOK(op, cur, b) {
						pl.sigma[plainName] = pl.ineqValue(op, b)
					}
				}
			}
		}
	}

	// 3. the bare instance and the planted message
	bare := &planter{t: t, o: o, occ: pl.occ, B: pl.B, sigma: pl.sigma, omitted: pl.omitted, plain: true, vopt: pl.vopt}
	// anonymous variables draw values; the bare instance is built
	// from the planted message's draws, so build planted first and
	// derive nothing from bare except size.
	msg := pl.inst(p)
	_ = bare
	return Planted{Pattern: p, Bindings: pl.B, Sigma: pl.sigma, Message: msg,
		Distractors: pl.distr, NearMisses: pl.near}
}

func relOK(op string, a, b float64) bool {
	switch op {
	case "<":
		return a < b
	case "<=":
		return a <= b
	case ">":
		return a > b
	case ">=":
		return a >= b
	case "!=":
		return a != b
	}
	return false
}

// activeIneq: v is an inequality variable bound to a number.
func (pl *planter) activeIneq(v string) (string, bool) {
	if _, plainName, is := refmatch.Ineq(v); is {
		if _, num := pl.B[v].(float64); num {
			return plainName, true
		}
	}
	return "", false
}

// inst instantiates pattern p and adds distractors.
func (pl *planter) inst(p interface{}) interface{} {
	t := pl.t
	switch pv := p.(type) {
	case string:
		if !refmatch.IsVar(pv) {
			return pv
		}
		if refmatch.IsAnon(pv) {
			if rapid.IntRange(0, 3).Draw(t, pl.label("anv")) == 0 {
				if v := jsongen.Value(t, pl.vopt, pl.label("anvv")); !jsongen.IsScalar(v) {
					return v
				}
			}
			return plantScalar(t, pl.label("an"))
		}
		if plainName, is := pl.activeIneq(pv); is {
			return pl.sigma[plainName]
		}
		val, have := pl.sigma[pv]
		if !have {
			// omitted optional variable in a position that needs
			// a value: it gets one now, and keeps it
			val = pl.valueFor(pv, false)
			pl.sigma[pv] = val
		}
		if _, pre := pl.B[pv]; pre {
			// a pre-bound value is a sub-pattern: extras may be
			// added inside
			return pl.plantConst(val)
		}
		return jsongen.Copy(val)
	case map[string]interface{}:
		if len(pv) == 1 {
			for k, sub := range pv {
				if refmatch.IsVar(k) {
					return pl.instPropVar(k, sub)
				}
			}
		}
		m := map[string]interface{}{}
		for _, k := range jsongen.SortedKeys(pv) {
			sub := pv[k]
			if s, is := sub.(string); is && refmatch.IsOptional(s) && pl.omitted[s] {
				continue
			}
			m[k] = pl.inst(sub)
		}
		pl.extraKeysInto(m, pv, nil)
		return m
	case []interface{}:
		a := []interface{}{}
		noSpare := false
		var structured []interface{}
		for _, x := range pv {
			if s, is := x.(string); is && refmatch.IsOptional(s) && pl.omitted[s] {
				noSpare = true
				continue
			}
			v := pl.inst(x)
			if !jsongen.IsScalar(v) {
				structured = append(structured, v)
			}
			a = append(a, v)
		}
		if !noSpare {
			a = pl.extraMembers(a, structured)
		}
		return pl.shuffle(a)
	default:
		return p
	}
}

func (pl *planter) shuffle(a []interface{}) []interface{} {
	if len(a) < 2 {
		return a
	}
	perm := rapid.Permutation(a).Draw(pl.t, pl.label("sh"))
	return perm
}

// plantConst: c plus extras at any depth.
func (pl *planter) plantConst(c interface{}) interface{} {
	switch cv := c.(type) {
	case map[string]interface{}:
		m := map[string]interface{}{}
		for _, k := range jsongen.SortedKeys(cv) {
			m[k] = pl.plantConst(cv[k])
		}
		pl.extraKeysInto(m, cv, nil)
		return m
	case []interface{}:
		a := []interface{}{}
		var structured []interface{}
		for _, x := range cv {
			v := pl.plantConst(x)
			if !jsongen.IsScalar(v) {
				structured = append(structured, v)
			}
			a = append(a, v)
		}
		a = pl.extraMembers(a, structured)
		return pl.shuffle(a)
	default:
		return c
	}
}

func (pl *planter) instPropVar(k string, sub interface{}) interface{} {
	t := pl.t
	var key string
	if refmatch.IsAnon(k) {
		key = rapid.SampledFrom(plantKeys).Draw(t, pl.label("ak"))
	} else if s, ok := pl.sigma[k].(string); ok {
		key = s
	} else {
		// loose mode: a non-string value cannot be planted as a key
		key = rapid.SampledFrom(plantKeys).Draw(t, pl.label("ak"))
	}
	val := pl.inst(sub)
	m := map[string]interface{}{key: val}
	if pl.plain {
		return m
	}
	// distractor keys
	for i := rapid.IntRange(0, 3).Draw(t, pl.label("pvx")); i > 0; i-- {
		xk := rapid.SampledFrom(append(append([]string{}, extraKeys...), plantKeys...)).Draw(t, pl.label("pvk"))
		if _, have := m[xk]; have {
			continue
		}
		if rapid.Bool().Draw(t, pl.label("pvn")) {
			m[xk] = pl.nearMiss(val)
			pl.near++
		} else {
			m[xk] = jsongen.Value(t, pl.vopt, pl.label("pvv"))
		}
		pl.distr++
	}
	return m
}

// extraKeysInto adds keys that the pattern map does not mention.
func (pl *planter) extraKeysInto(m map[string]interface{}, pattern map[string]interface{}, _ interface{}) {
	if pl.plain {
		return
	}
	t := pl.t
	for i := rapid.IntRange(0, 2).Draw(t, pl.label("xk")); i > 0; i-- {
		k := rapid.SampledFrom(extraKeys).Draw(t, pl.label("xkk"))
		if _, have := pattern[k]; have {
			continue
		}
		if _, have := m[k]; have {
			continue
		}
		// sometimes a copy of a sibling value (looks like a match at
		// the wrong key)
		keys := jsongen.SortedKeys(m)
		if len(keys) > 0 && rapid.IntRange(0, 2).Draw(t, pl.label("xks")) == 0 {
			m[k] = jsongen.Copy(m[rapid.SampledFrom(keys).Draw(t, pl.label("xkc"))])
			pl.near++
		} else {
			m[k] = jsongen.Value(t, pl.vopt, pl.label("xkv"))
		}
		pl.distr++
	}
}

// extraMembers adds members to a message array: random values and near
// misses of the structured members; scalar members stay distinct.
func (pl *planter) extraMembers(a []interface{}, structured []interface{}) []interface{} {
	if pl.plain {
		return a
	}
	t := pl.t
	for i := rapid.IntRange(0, 3).Draw(t, pl.label("xm")); i > 0; i-- {
		var x interface{}
		if len(structured) > 0 && rapid.IntRange(0, 1).Draw(t, pl.label("xmn")) == 0 {
			x = pl.nearMiss(rapid.SampledFrom(structured).Draw(t, pl.label("xms")))
			pl.near++
		} else {
			x = jsongen.Value(t, pl.vopt, pl.label("xmv"))
		}
		if jsongen.IsScalar(x) && jsongen.ContainsCanon(a, x) {
			continue
		}
		a = append(a, x)
		pl.distr++
	}
	return a
}

// nearMiss returns a copy of v with one leaf changed, one key removed
// or one member removed.
func (pl *planter) nearMiss(v interface{}) interface{} {
	return Mutate(pl.t, v, pl.label("nm"))
}

// Mutate changes one place of v (a copy is returned).
func Mutate(t *rapid.T, v interface{}, label string) interface{} {
	switch vv := v.(type) {
	case map[string]interface{}:
		m := jsongen.CopyMap(vv)
		keys := jsongen.SortedKeys(m)
		if len(keys) == 0 {
			return "mut"
		}
		k := rapid.SampledFrom(keys).Draw(t, label+"k")
		if rapid.IntRange(0, 3).Draw(t, label+"d") == 0 {
			delete(m, k)
			return m
		}
		m[k] = Mutate(t, m[k], label+".")
		return m
	case []interface{}:
		a := jsongen.Copy(vv).([]interface{})
		if len(a) == 0 {
			return []interface{}{"mut"}
		}
		i := rapid.IntRange(0, len(a)-1).Draw(t, label+"i")
		if rapid.IntRange(0, 3).Draw(t, label+"d") == 0 {
			return append(a[:i:i], a[i+1:]...)
		}
		x := Mutate(t, a[i], label+".")
		if jsongen.IsScalar(x) && jsongen.ContainsCanon(a, x) {
			return append(a[:i:i], a[i+1:]...)
		}
		a[i] = x
		return a
	case float64:
		return vv + 1
	case string:
		return vv + "m"
	case bool:
		return !vv
	default:
		return "mut"
	}
}
