// Package refmatch is a reference for the documented pattern matching
// semantics, written from README "Pattern matching", doc/rfc.md and
// match/match.md -- not from match.go.
//
// Contained decides whether a pattern, with a given set of bindings
// substituted, is contained in a message (the oracle for soundness).
// Embeddings enumerates all embeddings of a plain-fragment pattern (the
// oracle for completeness).
package refmatch

import (
	"encoding/json"
	"sort"
	"strings"
)

func IsVar(s string) bool      { return strings.HasPrefix(s, "?") }
func IsAnon(s string) bool     { return s == "?" }
func IsOptional(s string) bool { return strings.HasPrefix(s, "??") }

// Ineq splits an inequality variable into its operator and the name of
// its plain counterpart.
func Ineq(v string) (op, plain string, ok bool) {
	if len(v) < 3 || v[0] != '?' {
		return "", "", false
	}
	rest := v[1:]
	for _, o := range []string{"<=", ">=", "!=", ">", "<"} {
		if strings.HasPrefix(rest, o) {
			name := rest[len(o):]
			// An empty name would denote the anonymous variable;
			// not part of the fragment.
			return o, "?" + name, true
		}
	}
	return "", "", false
}

func rel(op string, a, b float64) bool {
	switch op {
	case "<":
		return a < b
	case "<=":
		return a <= b
	case ">":
		return a > b
	case ">=":
		return a >= b
	case "!=":
		return a != b
	}
	return false
}

func canon(v interface{}) string {
	b, _ := json.Marshal(v)
	return string(b)
}

// Equal is deep equality of JSON values (numbers by value).
func Equal(a, b interface{}) bool { return canon(a) == canon(b) }

// Vars collects the variables of a pattern (values and keys).
func Vars(p interface{}, acc map[string]int) map[string]int {
	if acc == nil {
		acc = map[string]int{}
	}
	switch vv := p.(type) {
	case string:
		if IsVar(vv) {
			acc[vv]++
		}
	case map[string]interface{}:
		for k, x := range vv {
			if IsVar(k) {
				acc[k]++
			}
			Vars(x, acc)
		}
	case []interface{}:
		for _, x := range vv {
			Vars(x, acc)
		}
	}
	return acc
}

// ConstContained: c (a constant: no string is a variable) is contained
// in m under the partial-matching rules.
func ConstContained(c, m interface{}) bool {
	switch cv := c.(type) {
	case nil:
		return m == nil
	case bool:
		mv, ok := m.(bool)
		return ok && mv == cv
	case float64:
		mv, ok := m.(float64)
		return ok && mv == cv
	case string:
		mv, ok := m.(string)
		return ok && mv == cv
	case map[string]interface{}:
		mm, ok := m.(map[string]interface{})
		if !ok {
			return false
		}
		for k, x := range cv {
			y, have := mm[k]
			if !have || !ConstContained(x, y) {
				return false
			}
		}
		return true
	case []interface{}:
		ma, ok := m.([]interface{})
		if !ok {
			return false
		}
		return injective(len(cv), len(ma), nil, func(i, j int) bool { return ConstContained(cv[i], ma[j]) })
	}
	return false
}

// injective: is there an injective assignment of 0..n-1 into 0..m-1
// with ok(i,j) for every pair; indices i with optional[i] may stay
// unassigned.
func injective(n, m int, optional []bool, ok func(i, j int) bool) bool {
	used := make([]bool, m)
	var rec func(i int) bool
	rec = func(i int) bool {
		if i == n {
			return true
		}
		for j := 0; j < m; j++ {
			if !used[j] && ok(i, j) {
				used[j] = true
				if rec(i + 1) {
					return true
				}
				used[j] = false
			}
		}
		if optional != nil && optional[i] {
			return rec(i + 1)
		}
		return false
	}
	return rec(0)
}

// varOK: the variable v, under bindings R, accepts the sub-message x.
func varOK(v string, x interface{}, R, B map[string]interface{}) bool {
	if IsAnon(v) {
		return true
	}
	if op, plain, is := Ineq(v); is {
		// The inequality reading applies to a variable that the
		// *given* bindings bind to a number (README: "the input
		// bindings should include a binding for [it]").
		if bv, have := B[v]; have {
			b, bnum := bv.(float64)
			a, anum := x.(float64)
			if bnum && anum {
				if !rel(op, a, b) {
					return false
				}
				pv, have := R[plain]
				if !have {
					return false
				}
				if pn, ok := pv.(float64); ok {
					return pn == a
				}
				// A plain counterpart bound to a non-number
				// disables the inequality reading.
				return a == b
			}
		}
	}
	val, have := R[v]
	if !have {
		return false
	}
	return ConstContained(val, x)
}

// Contained: pattern p with bindings R substituted is contained in m.
func Contained(p, m interface{}, R, B map[string]interface{}) bool {
	switch pv := p.(type) {
	case string:
		if IsVar(pv) {
			return varOK(pv, m, R, B)
		}
		return ConstContained(pv, m)
	case map[string]interface{}:
		mm, ok := m.(map[string]interface{})
		if !ok {
			return false
		}
		if len(pv) == 1 {
			for k, sub := range pv {
				if IsVar(k) {
					for mk, mv := range mm {
						if varOK(k, mk, R, B) && Contained(sub, mv, R, B) {
							return true
						}
					}
					return false
				}
			}
		}
		for k, sub := range pv {
			mv, have := mm[k]
			if !have {
				if s, is := sub.(string); is && IsOptional(s) {
					continue
				}
				return false
			}
			if !Contained(sub, mv, R, B) {
				return false
			}
		}
		return true
	case []interface{}:
		ma, ok := m.([]interface{})
		if !ok {
			return false
		}
		opt := make([]bool, len(pv))
		for i, x := range pv {
			if s, is := x.(string); is && IsOptional(s) {
				opt[i] = true
			}
		}
		return injective(len(pv), len(ma), opt, func(i, j int) bool { return Contained(pv[i], ma[j], R, B) })
	default:
		return ConstContained(p, m)
	}
}

// Embeddings enumerates the embeddings of p into m as sets of bindings
// (canonical JSON text of each set, sorted, distinct).  Variables are
// plain or anonymous.  A variable that occurs more than once must take
// equal values; if such a repeated variable ever meets a structured
// value the second result is true ("ambiguous": the documents do not
// fix whether equality or containment applies there).
func Embeddings(p, m interface{}) (set []string, ambiguous bool) {
	e := &enum{}
	seen := map[string]bool{}
	e.walk(p, m, map[string]interface{}{}, func(bs map[string]interface{}) {
		seen[canon(bs)] = true
	})
	for k := range seen {
		set = append(set, k)
	}
	sort.Strings(set)
	return set, e.ambiguous
}

type enum struct{ ambiguous bool }

func isScalar(x interface{}) bool {
	switch x.(type) {
	case map[string]interface{}, []interface{}:
		return false
	}
	return true
}

func (e *enum) bind(v string, x interface{}, bs map[string]interface{}, k func(map[string]interface{})) {
	if IsAnon(v) {
		k(bs)
		return
	}
	if old, have := bs[v]; have {
		if !isScalar(old) || !isScalar(x) {
			e.ambiguous = true
		}
		if Equal(old, x) {
			k(bs)
		}
		return
	}
	nbs := make(map[string]interface{}, len(bs)+1)
	for kk, vv := range bs {
		nbs[kk] = vv
	}
	nbs[v] = x
	k(nbs)
}

func (e *enum) walk(p, m interface{}, bs map[string]interface{}, k func(map[string]interface{})) {
	switch pv := p.(type) {
	case string:
		if IsVar(pv) {
			e.bind(pv, m, bs, k)
			return
		}
		if ConstContained(pv, m) {
			k(bs)
		}
	case map[string]interface{}:
		mm, ok := m.(map[string]interface{})
		if !ok {
			return
		}
		if len(pv) == 1 {
			for key, sub := range pv {
				if IsVar(key) {
					for _, mk := range sortedKeys(mm) {
						mv := mm[mk]
						e.bind(key, mk, bs, func(bs2 map[string]interface{}) {
							e.walk(sub, mv, bs2, k)
						})
					}
					return
				}
			}
		}
		keys := sortedKeys(pv)
		var rec func(i int, bs map[string]interface{})
		rec = func(i int, bs map[string]interface{}) {
			if i == len(keys) {
				k(bs)
				return
			}
			mv, have := mm[keys[i]]
			if !have {
				return
			}
			e.walk(pv[keys[i]], mv, bs, func(bs2 map[string]interface{}) { rec(i+1, bs2) })
		}
		rec(0, bs)
	case []interface{}:
		ma, ok := m.([]interface{})
		if !ok {
			return
		}
		used := make([]bool, len(ma))
		var rec func(i int, bs map[string]interface{})
		rec = func(i int, bs map[string]interface{}) {
			if i == len(pv) {
				k(bs)
				return
			}
			for j := range ma {
				if used[j] {
					continue
				}
				used[j] = true
				e.walk(pv[i], ma[j], bs, func(bs2 map[string]interface{}) { rec(i+1, bs2) })
				used[j] = false
			}
		}
		rec(0, bs)
	default:
		if ConstContained(p, m) {
			k(bs)
		}
	}
}

func sortedKeys(m map[string]interface{}) []string {
	keys := make([]string, 0, len(m))
	for k := range m {
		keys = append(keys, k)
	}
	sort.Strings(keys)
	return keys
}
