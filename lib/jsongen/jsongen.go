// Package jsongen generates JSON values with rapid and provides
// canonical forms and deep snapshots (value and aliasing).
package jsongen

import (
	"encoding/json"
	"fmt"
	"reflect"
	"sort"
	"strings"

	"pgregory.net/rapid"
)

// Opts bound a generated value.
type Opts struct {
	Depth   int  // maximum nesting depth
	Width   int  // maximum members per container
	SetLike bool // arrays have no duplicate scalar members
	Strs    []string
	Keys    []string
	Nums    []float64
	NoNull  bool
}

var (
	// (the last few are strings that print like values of other types:
	// "1" and 1, "true" and true, "<nil>" and null must never be confused)
	DefStrs = []string{"a", "b", "c", "d", "", "é", "a b", "x?y", "longer string", "!", "1", "2.5", "true", "<nil>", "0"}
	DefKeys = []string{"a", "b", "c", "d", "e", "k!", "", "to", "x y"}
	DefNums = []float64{0, 1, 2, 3, -1, 0.5, 10, 2.5, 1e9, -7.25}
	// PlantStrs / PlantNums are disjoint from the defaults; the
	// pattern generator uses them for values planted under array
	// variables so that they differ from array constants.
	PlantStrs = []string{"p", "q", "r", "s"}
	PlantNums = []float64{11, 12, 13, 14}
)

func (o Opts) norm() Opts {
	if o.Width == 0 {
		o.Width = 3
	}
	if o.Strs == nil {
		o.Strs = DefStrs
	}
	if o.Keys == nil {
		o.Keys = DefKeys
	}
	if o.Nums == nil {
		o.Nums = DefNums
	}
	return o
}

// Scalar draws a scalar.
func Scalar(t *rapid.T, o Opts, label string) interface{} {
	o = o.norm()
	k := rapid.IntRange(0, 9).Draw(t, label+".k")
	switch {
	case k <= 3:
		return rapid.SampledFrom(o.Nums).Draw(t, label+".n")
	case k <= 7:
		return rapid.SampledFrom(o.Strs).Draw(t, label+".s")
	case k == 8:
		return rapid.Bool().Draw(t, label+".b")
	default:
		if o.NoNull {
			return rapid.SampledFrom(o.Nums).Draw(t, label+".n")
		}
		return nil
	}
}

// Value draws a JSON value of depth at most o.Depth.
func Value(t *rapid.T, o Opts, label string) interface{} {
	o = o.norm()
	if o.Depth <= 0 {
		return Scalar(t, o, label)
	}
	k := rapid.IntRange(0, 9).Draw(t, label+".kind")
	sub := o
	sub.Depth--
	switch {
	case k <= 3:
		return Scalar(t, o, label)
	case k <= 6:
		n := rapid.IntRange(0, o.Width).Draw(t, label+".len")
		m := make(map[string]interface{}, n)
		for i := 0; i < n; i++ {
			key := rapid.SampledFrom(o.Keys).Draw(t, fmt.Sprintf("%s.key%d", label, i))
			m[key] = Value(t, sub, fmt.Sprintf("%s.%d", label, i))
		}
		return m
	default:
		n := rapid.IntRange(0, o.Width).Draw(t, label+".len")
		a := make([]interface{}, 0, n)
		for i := 0; i < n; i++ {
			v := Value(t, sub, fmt.Sprintf("%s[%d]", label, i))
			if o.SetLike && IsScalar(v) && containsCanon(a, v) {
				continue
			}
			a = append(a, v)
		}
		return a
	}
}

func IsScalar(v interface{}) bool {
	switch v.(type) {
	case map[string]interface{}, []interface{}:
		return false
	}
	return true
}

func containsCanon(a []interface{}, v interface{}) bool {
	c := Canon(v)
	for _, x := range a {
		if Canon(x) == c {
			return true
		}
	}
	return false
}

// ContainsCanon reports whether a has a member canonically equal to v.
func ContainsCanon(a []interface{}, v interface{}) bool { return containsCanon(a, v) }

// Canon is the canonical text of a JSON-like value (sorted keys).
// Values that are not JSON-representable are rendered with %#v so that
// they still compare.
func Canon(v interface{}) string {
	b, err := json.Marshal(v)
	if err != nil {
		return fmt.Sprintf("!%#v", v)
	}
	return string(b)
}

// CanonTyped renders a value with the Go types of its leaves and
// containers, so that int64(1) and float64(1), or match.Bindings and
// map[string]interface{}, are told apart.
func CanonTyped(v interface{}) string {
	var sb strings.Builder
	typed(&sb, reflect.ValueOf(v))
	return sb.String()
}

func typed(sb *strings.Builder, v reflect.Value) {
	if !v.IsValid() {
		sb.WriteString("nil")
		return
	}
	switch v.Kind() {
	case reflect.Interface, reflect.Ptr:
		if v.IsNil() {
			sb.WriteString("nil")
			return
		}
		typed(sb, v.Elem())
	case reflect.Map:
		fmt.Fprintf(sb, "%s{", v.Type())
		keys := v.MapKeys()
		sort.Slice(keys, func(i, j int) bool { return fmt.Sprint(keys[i]) < fmt.Sprint(keys[j]) })
		for _, k := range keys {
			fmt.Fprintf(sb, "%v:", k)
			typed(sb, v.MapIndex(k))
			sb.WriteString(",")
		}
		sb.WriteString("}")
	case reflect.Slice, reflect.Array:
		fmt.Fprintf(sb, "%s[", v.Type())
		for i := 0; i < v.Len(); i++ {
			typed(sb, v.Index(i))
			sb.WriteString(",")
		}
		sb.WriteString("]")
	default:
		fmt.Fprintf(sb, "%s(%v)", v.Type(), v.Interface())
	}
}

// Copy is a structural deep copy of a JSON-like value (maps with
// string keys, slices, scalars).  Named map types are preserved as
// map[string]interface{}.
func Copy(v interface{}) interface{} {
	switch vv := v.(type) {
	case map[string]interface{}:
		m := make(map[string]interface{}, len(vv))
		for k, x := range vv {
			m[k] = Copy(x)
		}
		return m
	case []interface{}:
		a := make([]interface{}, len(vv))
		for i, x := range vv {
			a[i] = Copy(x)
		}
		return a
	default:
		rv := reflect.ValueOf(v)
		if rv.IsValid() && rv.Kind() == reflect.Map && rv.Type().Key().Kind() == reflect.String {
			m := make(map[string]interface{}, rv.Len())
			for _, k := range rv.MapKeys() {
				m[k.String()] = Copy(rv.MapIndex(k).Interface())
			}
			return m
		}
		return v
	}
}

// CopyMap copies a map value.
func CopyMap(m map[string]interface{}) map[string]interface{} {
	if m == nil {
		return nil
	}
	return Copy(m).(map[string]interface{})
}

// Snapshot captures the value (typed canonical text) and the identity
// of every map and slice reachable from v.
type Snapshot struct {
	Text string
	Ids  map[uintptr]bool
}

func Snap(v interface{}) Snapshot {
	s := Snapshot{Text: CanonTyped(v), Ids: map[uintptr]bool{}}
	collect(reflect.ValueOf(v), s.Ids)
	return s
}

func collect(v reflect.Value, ids map[uintptr]bool) {
	if !v.IsValid() {
		return
	}
	switch v.Kind() {
	case reflect.Interface, reflect.Ptr:
		if !v.IsNil() {
			collect(v.Elem(), ids)
		}
	case reflect.Map:
		if v.IsNil() {
			return
		}
		ids[v.Pointer()] = true
		it := v.MapRange()
		for it.Next() {
			collect(it.Value(), ids)
		}
	case reflect.Slice:
		if v.IsNil() {
			return
		}
		if v.Len() > 0 {
			ids[v.Pointer()] = true
		}
		for i := 0; i < v.Len(); i++ {
			collect(v.Index(i), ids)
		}
	case reflect.Struct:
		for i := 0; i < v.NumField(); i++ {
			if v.Type().Field(i).IsExported() {
				collect(v.Field(i), ids)
			}
		}
	}
}

// MapIds returns the identities of the *maps* reachable from v.
func MapIds(v interface{}) map[uintptr]bool {
	ids := map[uintptr]bool{}
	collectMaps(reflect.ValueOf(v), ids)
	return ids
}

func collectMaps(v reflect.Value, ids map[uintptr]bool) {
	if !v.IsValid() {
		return
	}
	switch v.Kind() {
	case reflect.Interface, reflect.Ptr:
		if !v.IsNil() {
			collectMaps(v.Elem(), ids)
		}
	case reflect.Map:
		if v.IsNil() {
			return
		}
		ids[v.Pointer()] = true
		it := v.MapRange()
		for it.Next() {
			collectMaps(it.Value(), ids)
		}
	case reflect.Slice:
		for i := 0; i < v.Len(); i++ {
			collectMaps(v.Index(i), ids)
		}
	}
}

// Shares reports whether two values share a map.
func Shares(a, b interface{}) bool {
	ia, ib := MapIds(a), MapIds(b)
	for id := range ia {
		if ib[id] {
			return true
		}
	}
	return false
}

// Rebuild makes a deep copy of v in which every map is filled in the
// key order chosen by perm: perm(n) must return a permutation of 0..n-1
// that is applied to the sorted key list.  Go iterates small maps as a
// rotation of insertion order, so rebuilding is the way to reach other
// iteration orders.
func Rebuild(v interface{}, perm func(n int) []int) interface{} {
	switch vv := v.(type) {
	case map[string]interface{}:
		keys := make([]string, 0, len(vv))
		for k := range vv {
			keys = append(keys, k)
		}
		sort.Strings(keys)
		m := make(map[string]interface{}, len(vv))
		for _, i := range perm(len(keys)) {
			m[keys[i]] = Rebuild(vv[keys[i]], perm)
		}
		return m
	case []interface{}:
		a := make([]interface{}, len(vv))
		for i, x := range vv {
			a[i] = Rebuild(x, perm)
		}
		return a
	default:
		return v
	}
}

// Normalize passes a value through JSON (so that numbers are float64
// and maps are map[string]interface{}).
func Normalize(v interface{}) (interface{}, error) {
	b, err := json.Marshal(v)
	if err != nil {
		return nil, err
	}
	var x interface{}
	if err := json.Unmarshal(b, &x); err != nil {
		return nil, err
	}
	return x, nil
}

// SortedKeys returns the sorted keys of m.
func SortedKeys(m map[string]interface{}) []string {
	keys := make([]string, 0, len(m))
	for k := range m {
		keys = append(keys, k)
	}
	sort.Strings(keys)
	return keys
}

// Cyclic reports whether v (maps with string keys and slices, nested)
// contains a map or slice that contains itself.
func Cyclic(v interface{}) bool {
	return cyclic(v, map[uintptr]bool{})
}

func cyclic(v interface{}, path map[uintptr]bool) bool {
	var ptr uintptr
	switch vv := v.(type) {
	case map[string]interface{}:
		if vv == nil {
			return false
		}
		ptr = reflect.ValueOf(vv).Pointer()
	case []interface{}:
		if len(vv) == 0 {
			return false
		}
		ptr = reflect.ValueOf(vv).Pointer()
	default:
		return false
	}
	if path[ptr] {
		return true
	}
	path[ptr] = true
	defer delete(path, ptr)
	switch vv := v.(type) {
	case map[string]interface{}:
		for _, x := range vv {
			if cyclic(x, path) {
				return true
			}
		}
	case []interface{}:
		for _, x := range vv {
			if cyclic(x, path) {
				return true
			}
		}
	}
	return false
}

// Intify turns whole float64 numbers into int64 (every third into int).
func Intify(v interface{}, n *int) interface{} {
	switch vv := v.(type) {
	case float64:
		if vv == float64(int64(vv)) && vv < 1e15 && vv > -1e15 {
			*n++
			if *n%3 == 0 {
				return int(vv)
			}
			return int64(vv)
		}
		return vv
	case map[string]interface{}:
		m := make(map[string]interface{}, len(vv))
		for _, k := range SortedKeys(vv) {
			m[k] = Intify(vv[k], n)
		}
		return m
	case []interface{}:
		a := make([]interface{}, len(vv))
		for i, x := range vv {
			a[i] = Intify(x, n)
		}
		return a
	}
	return v
}
