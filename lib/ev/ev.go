// Package ev is the glue between a generated check and the vcheck driver.
//
// A check is: a generator of plain-data cases (all randomness through
// rapid), and a pure function from a case to a verdict.  This package
// runs the pair under rapid, counts what was generated (evaluations,
// distinct non-trivial cases, class histogram, samples), writes the
// counters to the stats file the driver named in VERIF_STATS, and on a
// failure writes the shrunk case as a library-independent replay file
// and prints the VIOLATION line.
package ev

import (
	"encoding/binary"
	"encoding/json"
	"flag"
	"fmt"
	"hash/fnv"
	"os"
	"path/filepath"
	"runtime/debug"
	"sort"
	"strconv"
	"strings"
	"sync"
	"testing"
	"time"

	"pgregory.net/rapid"
)

// Verdict is what a check function reports about one case.
type Verdict struct {
	// Err, if not empty, says how the property is violated.
	Err string
	// NonTrivial tells whether the case is non-trivial by the
	// property's stated rule.
	NonTrivial bool
	// Classes label the case (histogram).
	Classes []string
	// Skip means the case fell into a listed known finding (or is
	// outside the domain) and was not judged.
	Skip bool
	// SkipReason labels the skip.
	SkipReason string
}

func (v *Verdict) Class(c string) { v.Classes = append(v.Classes, c) }
func (v *Verdict) Failf(f string, a ...interface{}) {
	if v.Err == "" {
		v.Err = fmt.Sprintf(f, a...)
	}
}

// Opts configure a run.
type Opts struct {
	Property   string // C01
	Name       string // sub-check name, e.g. "sound"
	Quick      int    // number of cases in the quick tier (whole run)
	Thorough   int    // number of cases in the thorough tier (summed over shards)
	Rule       string // non-triviality rule (text, for evidence)
	MaxSamples int
	// Journal: write every case to $VERIF_WORK/journal-<property>-<name>.json
	// before it runs, so that a crash of the whole process (a fatal
	// runtime error cannot be trapped) still leaves a replayable case.
	Journal bool
	// ShrinkTime overrides rapid's shrinking budget (default 20s); checks
	// whose failing cases leave runaway work behind keep it short.
	ShrinkTime string
}

type stats struct {
	Property    string                 `json:"property"`
	Name        string                 `json:"name"`
	Tier        string                 `json:"tier"`
	Shard       int                    `json:"shard"`
	Seed        uint64                 `json:"rapid_seed"`
	Requested   int                    `json:"requested"`
	Evaluations int                    `json:"evaluations"`
	NonTrivial  int                    `json:"nontrivial"`
	Distinct    int                    `json:"distinct_nontrivial"`
	Skipped     map[string]int         `json:"skipped,omitempty"`
	Classes     map[string]int         `json:"classes"`
	Samples     []json.RawMessage      `json:"samples"`
	Rule        string                 `json:"rule"`
	Exhaustive  bool                   `json:"exhaustive,omitempty"`
	Violations  int                    `json:"violations"`
	Known       []string               `json:"known,omitempty"`
	HashFile    string                 `json:"hash_file,omitempty"`
	Replay      bool                   `json:"replay,omitempty"`
	WallS       float64                `json:"wall_s"`
	Notes       map[string]interface{} `json:"notes,omitempty"`
}

// Rec records what one sub-check explored.
type Rec struct {
	mu        sync.Mutex
	o         Opts
	st        stats
	hashes    map[uint64]struct{}
	failed    bool
	current   []byte
	curMsg    string
	firstMsg  string // the first failure seen (kept in case it does not reproduce)
	firstCase []byte
	start     time.Time
	frozen    bool
}

const maxHashes = 400000

func Tier() string {
	if os.Getenv("VERIF_TIER") == "thorough" {
		return "thorough"
	}
	return "quick"
}

func envInt(k string, d int) int {
	if s := os.Getenv(k); s != "" {
		if n, err := strconv.Atoi(s); err == nil {
			return n
		}
	}
	return d
}

func Shard() int { return envInt("VERIF_SHARD", 0) }
func NShards() int {
	n := envInt("VERIF_NSHARDS", 1)
	if n < 1 {
		n = 1
	}
	return n
}
func Seed() int { return envInt("VERIF_SEED", 1) }

// RapidSeed derives the PRNG value for this (seed, shard, name).  Never 0.
func RapidSeed(name string) uint64 {
	h := fnv.New64a()
	h.Write([]byte(name))
	v := uint64(Seed())*1000003 + uint64(Shard())*7919 + h.Sum64()%1000
	return 1 + v%2147483646
}

// N returns the number of cases this shard should run.
func N(quick, thorough int) int {
	n := quick
	if Tier() == "thorough" {
		n = thorough
	}
	ns := NShards()
	per := n / ns
	if Shard() < n%ns {
		per++
	}
	if per < 1 {
		per = 1
	}
	return per
}

func NewRec(o Opts) *Rec {
	if o.MaxSamples == 0 {
		o.MaxSamples = 4
	}
	r := &Rec{o: o, hashes: map[uint64]struct{}{}, start: time.Now()}
	r.st = stats{Property: o.Property, Name: o.Name, Tier: Tier(), Shard: Shard(),
		Classes: map[string]int{}, Skipped: map[string]int{}, Rule: o.Rule, Notes: map[string]interface{}{}}
	return r
}

func (r *Rec) Note(k string, v interface{}) {
	r.mu.Lock()
	defer r.mu.Unlock()
	r.st.Notes[k] = v
}

func (r *Rec) AddNote(k string, n int) {
	r.mu.Lock()
	defer r.mu.Unlock()
	if old, ok := r.st.Notes[k].(int); ok {
		r.st.Notes[k] = old + n
	} else {
		r.st.Notes[k] = n
	}
}

func (r *Rec) SetExhaustive() { r.st.Exhaustive = true }

// Known records a KNOWN-FINDING line (printed by the driver too).
func (r *Rec) Known(desc string) {
	r.mu.Lock()
	defer r.mu.Unlock()
	r.st.Known = append(r.st.Known, desc)
	fmt.Printf("KNOWN-FINDING: property=%s %s\n", r.o.Property, desc)
}

func hashOf(b []byte) uint64 {
	h := fnv.New64a()
	h.Write(b)
	return h.Sum64()
}

// record accounts for one evaluated case.
func (r *Rec) record(caseJSON []byte, v *Verdict) {
	r.mu.Lock()
	defer r.mu.Unlock()
	if r.frozen {
		return
	}
	if v.Skip {
		r.st.Skipped[v.SkipReason]++
		return
	}
	r.st.Evaluations++
	for _, c := range v.Classes {
		r.st.Classes[c]++
	}
	if v.NonTrivial {
		r.st.NonTrivial++
		h := hashOf(caseJSON)
		if _, have := r.hashes[h]; !have && len(r.hashes) < maxHashes {
			r.hashes[h] = struct{}{}
			if len(r.st.Samples) < r.o.MaxSamples && len(caseJSON) < 6000 {
				r.st.Samples = append(r.st.Samples, json.RawMessage(append([]byte{}, caseJSON...)))
			}
		}
	}
}

func statsPath() string { return os.Getenv("VERIF_STATS") }

// Finish writes the stats (appends one JSON line) and, if the test
// failed, the replay file and VIOLATION line.  Call with defer.
func (r *Rec) Finish(t *testing.T) {
	r.mu.Lock()
	defer r.mu.Unlock()
	r.st.WallS = time.Since(r.start).Seconds()
	r.st.Distinct = len(r.hashes)
	if t.Failed() || r.failed {
		r.st.Violations = 1
		if r.curMsg == "" && r.firstMsg != "" {
			// the failure did not reproduce when rapid re-ran the case:
			// report the case and message of the first failure
			r.current = r.firstCase
			r.curMsg = "(did not reproduce on re-run) " + r.firstMsg
		}
		path := r.writeReplay()
		fmt.Printf("VIOLATION property=%s replay=%s\n", r.o.Property, path)
		if r.curMsg != "" {
			fmt.Printf("  %s/%s: %s\n", r.o.Property, r.o.Name, r.curMsg)
		}
	}
	p := statsPath()
	if p == "" {
		return
	}
	if len(r.hashes) > 0 {
		hf := fmt.Sprintf("%s.%s.%d.hashes", p, r.o.Name, r.st.Shard)
		buf := make([]byte, 0, 8*len(r.hashes))
		for h := range r.hashes {
			buf = binary.LittleEndian.AppendUint64(buf, h)
		}
		if err := os.WriteFile(hf, buf, 0644); err == nil {
			r.st.HashFile = hf
		}
	}
	js, _ := json.Marshal(r.st)
	f, err := os.OpenFile(p, os.O_APPEND|os.O_CREATE|os.O_WRONLY, 0644)
	if err != nil {
		t.Logf("cannot write stats: %v", err)
		return
	}
	defer f.Close()
	f.Write(append(js, '\n'))
}

func (r *Rec) writeReplay() string {
	dir := os.Getenv("VERIF_REPLAY_DIR")
	if dir == "" {
		dir = filepath.Join(os.TempDir(), "verif-replays")
	}
	dir = filepath.Join(dir, r.o.Property)
	os.MkdirAll(dir, 0755)
	doc := map[string]interface{}{
		"property": r.o.Property,
		"check":    r.o.Name,
		"message":  r.curMsg,
		"case":     json.RawMessage(r.current),
	}
	if len(r.current) == 0 {
		doc["case"] = nil
	}
	js, _ := json.MarshalIndent(doc, "", " ")
	name := fmt.Sprintf("%s-%016x.json", r.o.Name, hashOf(r.current))
	path := filepath.Join(dir, name)
	os.WriteFile(path, js, 0644)
	return path
}

// ReplayFor returns the case JSON if VERIF_REPLAY names a replay file
// for this property and sub-check.
func ReplayFor(property, name string) ([]byte, bool) {
	p := os.Getenv("VERIF_REPLAY")
	if p == "" {
		return nil, false
	}
	raw, err := os.ReadFile(p)
	if err != nil {
		return nil, false
	}
	var doc struct {
		Property string          `json:"property"`
		Check    string          `json:"check"`
		Case     json.RawMessage `json:"case"`
	}
	if err := json.Unmarshal(raw, &doc); err != nil {
		return nil, false
	}
	if doc.Property != property || doc.Check != name {
		return nil, false
	}
	return doc.Case, true
}

// Replaying says whether this process was started to replay a file.
func Replaying() bool { return os.Getenv("VERIF_REPLAY") != "" }

// Run drives gen+check.  In replay mode it loads the case instead.
// Regression cases found under /verif/regress/<property>/<name>-*.json
// are run first (the replay tier).
func Run[C any](t *testing.T, o Opts, gen func(*rapid.T) C, check func(C) Verdict) {
	r := NewRec(o)
	defer r.Finish(t)
	RunWith(t, r, gen, check)
}

// RunWith is Run with a caller-owned recorder (several generators may
// feed one recorder).
func RunWith[C any](t *testing.T, r *Rec, gen func(*rapid.T) C, check func(C) Verdict) {
	o := r.o
	one := func(raw []byte, what string) bool {
		var c C
		if err := json.Unmarshal(raw, &c); err != nil {
			t.Fatalf("%s: bad case: %v", what, err)
		}
		r.setCurrent(raw, "")
		if o.Journal {
			journal(o, raw)
		}
		v := safeCheck(check, c)
		r.record(raw, &v)
		if v.Err != "" {
			r.fail(v.Err)
			t.Errorf("%s: %s", what, v.Err)
			return false
		}
		return true
	}

	if raw, ok := ReplayFor(o.Property, o.Name); ok {
		r.st.Replay = true
		one(raw, "replay")
		return
	}
	if Replaying() {
		t.Skip("replay of another check")
	}

	// Replay tier: committed regression cases.
	for _, f := range RegressFiles(o.Property, o.Name) {
		raw, err := os.ReadFile(f)
		if err != nil {
			continue
		}
		var doc struct {
			Case json.RawMessage `json:"case"`
		}
		if json.Unmarshal(raw, &doc) != nil || doc.Case == nil {
			continue
		}
		r.AddNote("regress_cases", 1)
		if !one(doc.Case, "regress "+filepath.Base(f)) {
			return
		}
	}

	n := N(o.Quick, o.Thorough)
	seed := RapidSeed(o.Property + "/" + o.Name)
	r.st.Requested += n
	r.st.Seed = seed
	flag.Set("rapid.checks", strconv.Itoa(n))
	flag.Set("rapid.seed", strconv.FormatUint(seed, 10))
	flag.Set("rapid.nofailfile", "true")
	if o.ShrinkTime != "" {
		flag.Set("rapid.shrinktime", o.ShrinkTime)
	} else {
		flag.Set("rapid.shrinktime", "20s")
	}
	rapid.Check(t, func(rt *rapid.T) {
		c := gen(rt)
		raw, err := json.Marshal(c)
		if err != nil {
			rt.Fatalf("case not serialisable: %v", err)
		}
		r.setCurrent(raw, "")
		if o.Journal {
			journal(o, raw)
		}
		t0 := time.Now()
		v := safeCheck(check, c)
		if ms, _ := strconv.Atoi(os.Getenv("VERIF_SLOW_MS")); ms > 0 && time.Since(t0) > time.Duration(ms)*time.Millisecond {
			// development aid: which generated cases are expensive
			fmt.Fprintf(os.Stderr, "SLOW %v: %s\n", time.Since(t0), Trunc(string(raw), 3000))
		}
		r.record(raw, &v)
		if v.Skip {
			return
		}
		if v.Err != "" {
			r.fail(v.Err)
			rt.Fatalf("%s", v.Err)
		}
	})
}

func journal(o Opts, raw []byte) {
	dir := os.Getenv("VERIF_WORK")
	if dir == "" {
		return
	}
	doc, _ := json.Marshal(map[string]interface{}{"property": o.Property, "check": o.Name,
		"message": "the process died while running this case", "case": json.RawMessage(raw)})
	os.WriteFile(filepath.Join(dir, "journal-"+o.Property+"-"+o.Name+".json"), doc, 0644)
}

// Fuzz runs gen+check under Go's native coverage-guided fuzzer: the
// fuzzer's bytes drive rapid's generators (rapid.MakeFuzz), so the
// same structured cases are produced, now selected by coverage.  A
// failing case is written as a replay file by the worker itself.
func Fuzz[C any](f *testing.F, o Opts, gen func(*rapid.T) C, check func(C) Verdict) {
	f.Add([]byte{})
	f.Add([]byte{0x01, 0x23, 0x45, 0x67, 0x89, 0xab, 0xcd, 0xef, 0x10, 0x32, 0x54, 0x76, 0x98, 0xba, 0xdc, 0xfe})
	prop := func(rt *rapid.T) {
		c := gen(rt)
		raw, err := json.Marshal(c)
		if err != nil {
			return
		}
		if o.Journal {
			journal(o, raw)
		}
		v := safeCheck(check, c)
		if v.Skip {
			return
		}
		if v.Err != "" {
			dir := os.Getenv("VERIF_REPLAY_DIR")
			if dir != "" {
				dir = filepath.Join(dir, o.Property)
				os.MkdirAll(dir, 0755)
				doc, _ := json.MarshalIndent(map[string]interface{}{"property": o.Property, "check": o.Name,
					"message": v.Err, "case": json.RawMessage(raw), "found_by": "native fuzzing"}, "", " ")
				os.WriteFile(filepath.Join(dir, fmt.Sprintf("fuzz-%s-%016x.json", o.Name, hashOf(raw))), doc, 0644)
			}
			rt.Fatalf("%s", v.Err)
		}
	}
	f.Fuzz(rapid.MakeFuzz(prop))
}

func safeCheck[C any](check func(C) Verdict, c C) (v Verdict) {
	defer func() {
		if x := recover(); x != nil {
			v.Err = fmt.Sprintf("panic: %v\n%s", x, debug.Stack())
		}
	}()
	return check(c)
}

func (r *Rec) setCurrent(raw []byte, msg string) {
	r.mu.Lock()
	defer r.mu.Unlock()
	r.current = append(r.current[:0], raw...)
	r.curMsg = msg
}

func (r *Rec) fail(msg string) {
	r.mu.Lock()
	defer r.mu.Unlock()
	if !r.failed {
		r.firstMsg = msg
		r.firstCase = append([]byte{}, r.current...)
	}
	r.failed = true
	r.frozen = true // what follows is shrinking, not exploration
	r.curMsg = msg
}

// Manual accounting for checks that do not fit Run (enumerations,
// concurrency rounds).
func (r *Rec) Eval(c interface{}, v Verdict) bool {
	raw, _ := json.Marshal(c)
	r.setCurrent(raw, "")
	r.record(raw, &v)
	if v.Err != "" {
		r.fail(v.Err)
		return false
	}
	return true
}

func (r *Rec) Requested(n int) { r.st.Requested += n }

// Tally accounts for one case without serialising it: key identifies
// the case (distinctness); sample, if not nil, is called to produce a
// sample when one is still wanted.
func (r *Rec) Tally(key string, v Verdict, sample func() interface{}) bool {
	r.mu.Lock()
	if !r.frozen {
		if v.Skip {
			r.st.Skipped[v.SkipReason]++
		} else {
			r.st.Evaluations++
			for _, c := range v.Classes {
				r.st.Classes[c]++
			}
			if v.NonTrivial {
				r.st.NonTrivial++
				h := hashOf([]byte(key))
				if _, have := r.hashes[h]; !have && len(r.hashes) < maxHashes {
					r.hashes[h] = struct{}{}
					if len(r.st.Samples) < r.o.MaxSamples && sample != nil {
						if js, err := json.Marshal(sample()); err == nil {
							r.st.Samples = append(r.st.Samples, js)
						}
					}
				}
			}
		}
	}
	r.mu.Unlock()
	if v.Err != "" {
		var raw []byte
		if sample != nil {
			raw, _ = json.Marshal(sample())
		}
		r.setCurrent(raw, "")
		r.fail(v.Err)
		return false
	}
	return true
}

// RegressFiles lists committed regression cases for a sub-check.
func RegressFiles(property, name string) []string {
	root := os.Getenv("VERIF_ROOT")
	if root == "" {
		root = "/verif"
	}
	m, _ := filepath.Glob(filepath.Join(root, "regress", property, name+"-*.json"))
	sort.Strings(m)
	return m
}

// KnownFindings loads /verif/known_findings.json.
type Finding struct {
	Property  string `json:"property"`
	Signature string `json:"signature"`
	What      string `json:"what"`
	Commit    string `json:"commit,omitempty"`
}

type Findings struct {
	Known []Finding `json:"known"`
	Fixed []Finding `json:"fixed"`
}

var (
	findingsOnce sync.Once
	findings     Findings
)

func LoadFindings() Findings {
	findingsOnce.Do(func() {
		root := os.Getenv("VERIF_ROOT")
		if root == "" {
			root = "/verif"
		}
		raw, err := os.ReadFile(filepath.Join(root, "known_findings.json"))
		if err == nil {
			json.Unmarshal(raw, &findings)
		}
	})
	return findings
}

// IsKnown reports whether a signature is listed as a known (unrepaired)
// finding for the property.
func IsKnown(property, signature string) (Finding, bool) {
	for _, f := range LoadFindings().Known {
		if f.Property == property && f.Signature == signature {
			return f, true
		}
	}
	return Finding{}, false
}

// Trunc shortens long strings for messages.
func Trunc(s string, n int) string {
	if len(s) <= n {
		return s
	}
	return s[:n] + "…"
}

func JS(x interface{}) string {
	b, err := json.Marshal(x)
	if err != nil {
		return fmt.Sprintf("%#v", x)
	}
	return string(b)
}

func init() {
	// keep "strings" imported for helpers below
	_ = strings.TrimSpace
}
