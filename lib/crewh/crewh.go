// Package crewh has helpers to host sio crews in checks.
package crewh

import (
	"context"
	"encoding/json"

	"github.com/Comcast/sheens/core"
	"github.com/Comcast/sheens/crew"
	"github.com/Comcast/sheens/sio"
)

// Couplings hands the crew channels that the harness owns.
type Couplings struct {
	In  chan interface{}
	Out chan *sio.Result
}

func NewCouplings(buf int) *Couplings {
	return &Couplings{In: make(chan interface{}, buf), Out: make(chan *sio.Result, buf)}
}

func (c *Couplings) Start(context.Context) error { return nil }
func (c *Couplings) Stop(context.Context) error  { return nil }
func (c *Couplings) IO(context.Context) (chan interface{}, chan *sio.Result, error) {
	return c.In, c.Out, nil
}
func (c *Couplings) Read(context.Context) (map[string]*crew.Machine, error) { return nil, nil }

// NewCrew makes a crew whose loop the harness plays itself
// (ProcessMsg is called directly).
func NewCrew(ctx context.Context, limit int, buf int) (*sio.Crew, *Couplings, error) {
	cp := NewCouplings(buf)
	c, err := sio.NewCrew(ctx, &sio.CrewConf{Id: "verif", Ctl: &core.Control{Limit: limit}}, cp)
	return c, cp, err
}

// InlineSource wraps a spec (ECMAScript sources only) as an inline
// SpecSource via its JSON form, the way a host would receive it.
func InlineSource(spec *core.Spec) (*crew.SpecSource, error) {
	js, err := json.Marshal(spec)
	if err != nil {
		return nil, err
	}
	var s core.Spec
	if err := json.Unmarshal(js, &s); err != nil {
		return nil, err
	}
	return &crew.SpecSource{Inline: &s}, nil
}
