package sm

import (
	"encoding/json"
	"sort"
	"strings"

	"github.com/Comcast/sheens/core"
	"github.com/Comcast/sheens/match"
	"verif/lib/jsongen"
)

// ErrToken stands for the (unspecified) text of an error.
const ErrToken = "<ERR>"

// StepResult is the observable outcome of one step.
type StepResult struct {
	Err      bool                   `json:"err,omitempty"`
	ToNil    bool                   `json:"toNil,omitempty"`
	Node     string                 `json:"node,omitempty"`
	Bs       map[string]interface{} `json:"bs,omitempty"`
	Consumed bool                   `json:"consumed,omitempty"`
	Emitted  []interface{}          `json:"emitted,omitempty"`
	// Route labels how the model got there (for classes).
	Route string `json:"route,omitempty"`
}

// Key is the canonical text used to compare outcomes.
func (r StepResult) Key() string {
	if r.Err {
		// "message branching consumes the pending message whether or not
		// a branch is taken": also when trying the branches fails
		if r.Consumed {
			return "ERR consumed"
		}
		return "ERR"
	}
	var sb strings.Builder
	if r.ToNil {
		sb.WriteString("to=nil")
	} else {
		sb.WriteString("to=" + r.Node + " " + jsongen.Canon(r.Bs))
	}
	if r.Consumed {
		sb.WriteString(" consumed")
	}
	em := r.Emitted
	if em == nil {
		em = []interface{}{}
	}
	sb.WriteString(" emitted=" + jsongen.Canon(em))
	return sb.String()
}

func isPermanent(k string) bool { return strings.HasSuffix(k, "!") }

func restorePermanent(from, into map[string]interface{}) {
	for k, v := range from {
		if isPermanent(k) {
			into[k] = jsongen.Copy(v)
		}
	}
}

// lookup finds the node the compiled spec would have.
func (a *ASpec) lookup(name string) (*ANode, bool) {
	if n, have := a.Nodes[name]; have {
		return n, true
	}
	if name == "error" && !a.NoAutoErrorNode {
		return &ANode{NoBranching: true}, true
	}
	return nil, false
}

func resolveTarget(target string, bs map[string]interface{}) string {
	if len(bs) > 0 && len(target) > 0 && target[0] == '@' {
		if x, have := bs[target[1:]]; have {
			if s, is := x.(string); is {
				return s
			}
		}
	}
	return target
}

// RefStep returns the set of outcomes the documentation allows for one
// step of spec a at (node, bs) with the given pending message (nil =
// none).  Candidates for a branch come from the real matcher (its
// properties are checked separately).
func RefStep(a *ASpec, node string, bs map[string]interface{}, pending interface{}) []StepResult {
	return RefStepTok(a, node, bs, pending, ErrToken)
}

// TokenFrom extracts the error text the real step produced (if any), to
// be used as the model's error text: the text is opaque, but bindings
// that already carry an earlier error text are matched against it.
func TokenFrom(stride *core.Stride) string {
	if stride != nil && stride.To != nil {
		if s, ok := stride.To.Bs["actionError"].(string); ok && s != "" {
			return s
		}
	}
	return ErrToken
}

// noBranchTok is the text the model uses for the "followed no branch"
// error of the step being modelled (set by RefStepTok; the checks are
// single-threaded per process).
var noBranchTok = ErrToken

// ErrorTextFrom extracts the text the real step put under "error".
func ErrorTextFrom(stride *core.Stride) string {
	if stride != nil && stride.To != nil {
		if s, ok := stride.To.Bs["error"].(string); ok && s != "" {
			return s
		}
	}
	return ErrToken
}

// RefStepTok is RefStep with given texts for action errors and for the
// "followed no branch" error (error texts are opaque, but bindings that
// already carry an earlier text are compared with them).
func RefStepTok(a *ASpec, node string, bs map[string]interface{}, pending interface{}, tok string, errTok ...string) []StepResult {
	noBranchTok = ErrToken
	if len(errTok) > 0 && errTok[0] != "" {
		noBranchTok = errTok[0]
	}
	n, have := a.lookup(node)
	if !have {
		return []StepResult{{Err: true, Route: "unknown-node"}}
	}
	btype := n.BranchType
	if btype == "" {
		btype = "bindings"
	}
	haveAction := n.Action != nil
	if haveAction && !n.NoBranching && btype == "message" {
		return []StepResult{{Err: true, Route: "bad-branching"}}
	}
	orig := jsongen.CopyMap(bs)
	cur := jsongen.CopyMap(bs)
	var emitted []interface{}
	route := ""
	variants := []map[string]interface{}{}
	if haveAction {
		out := n.Action.Run(cur)
		switch out.Kind {
		case "ok":
			cur = out.Bs
			restorePermanent(orig, cur)
			emitted = out.Emitted
			route = "action-ok"
		case "null":
			// "If the action returned nil bindings, use empty
			// bindings."  Whether permanent bindings survive that is
			// not fixed; both are allowed.
			with := map[string]interface{}{}
			restorePermanent(orig, with)
			variants = append(variants, with)
			cur = map[string]interface{}{}
			emitted = out.Emitted
			route = "action-null"
		case "fail":
			cur = jsongen.CopyMap(orig)
			cur["actionError"] = tok
			cur["error"] = tok
			route = "action-failed"
			if !a.ActionErrorBranches {
				if a.ActionErrorNode == "" {
					return []StepResult{{Err: true, Route: "action-failed:error-returned"}}
				}
				return []StepResult{{Node: a.ActionErrorNode, Bs: cur, Route: "action-failed:error-node"}}
			}
			route = "action-failed:branches"
		}
	}
	var results []StepResult
	for _, start := range append([]map[string]interface{}{cur}, variants...) {
		for _, r := range considerRef(a, n, node, orig, start, pending, btype, haveAction) {
			r.Emitted = emitted
			if r.Route == "" {
				r.Route = route
			} else if route != "" {
				r.Route = route + "+" + r.Route
			}
			results = append(results, r)
		}
	}
	return results
}

func considerRef(a *ASpec, n *ANode, node string, orig, cur map[string]interface{}, pending interface{}, btype string, haveAction bool) []StepResult {
	noBranch := func(consumed bool) []StepResult {
		if haveAction {
			bs := jsongen.CopyMap(cur)
			bs["error"] = noBranchTok
			bs["lastNode"] = node
			bs["lastBindings"] = jsongen.CopyMap(orig)
			return []StepResult{{Node: "error", Bs: bs, Consumed: consumed, Route: "action-node-no-branch"}}
		}
		return []StepResult{{ToNil: true, Consumed: consumed, Route: "no-branch"}}
	}
	if n.NoBranching {
		return noBranch(false)
	}
	consumer := btype == "message"
	var against interface{}
	if consumer {
		if pending == nil {
			return noBranch(false)
		}
		against = pending
	} else {
		against = jsongen.CopyMap(cur)
	}
	for i, b := range n.Branches {
		var cands []map[string]interface{}
		if b.HasPattern && b.Pattern != nil {
			bss, err := match.Match(jsongen.Copy(b.Pattern), jsongen.Copy(against), match.Bindings(jsongen.CopyMap(cur)))
			if err != nil {
				return []StepResult{{Err: true, Consumed: consumer, Route: "match-error"}}
			}
			for _, c := range bss {
				cands = append(cands, map[string]interface{}(c))
			}
		} else {
			cands = []map[string]interface{}{jsongen.CopyMap(cur)}
		}
		take := func(bs map[string]interface{}, route string) StepResult {
			if i > 0 {
				route += ":later-branch"
			}
			return StepResult{Node: resolveTarget(b.Target, bs), Bs: bs, Consumed: consumer, Route: route}
		}
		if b.Guard == nil {
			switch len(cands) {
			case 0:
				continue
			case 1:
				return []StepResult{take(cands[0], "branch")}
			default:
				// the code reports an error; the README describes
				// taking one: both allowed
				out := []StepResult{{Err: true, Consumed: consumer, Route: "too-many-bindingss"}}
				for _, c := range cands {
					out = append(out, take(c, "branch-multi"))
				}
				return out
			}
		}
		var out []StepResult
		seen := map[string]bool{}
		for _, c := range cands {
			g := b.Guard.Run(c)
			switch g.Kind {
			case "fail":
				if !seen["ERR"] {
					seen["ERR"] = true
					out = append(out, StepResult{Err: true, Consumed: consumer, Route: "guard-failed"})
				}
			case "null":
				// rejected
			case "ok":
				restorePermanent(c, g.Bs)
				r := take(g.Bs, "guard-accepted")
				if !seen[r.Key()] {
					seen[r.Key()] = true
					out = append(out, r)
				}
			}
		}
		if len(out) > 0 {
			if len(cands) > 1 {
				for i := range out {
					out[i].Route += ":multi-candidate"
				}
			}
			return out
		}
		// all candidates rejected (or none): next branch
	}
	rs := noBranch(consumer)
	for i := range rs {
		if len(n.Branches) > 0 {
			rs[i].Route += ":all-tried"
		}
	}
	return rs
}

// ---- canonical view of what the real code returned

// scrub replaces error texts by ErrToken: the values under
// "actionError"/"error" at the top of a bindings map (and inside
// lastBindings), and every other occurrence of those same strings.
// Scrub is exported for checks that compare states modulo error texts.
func Scrub(bs map[string]interface{}) map[string]interface{} { return scrub(bs) }

func scrub(bs map[string]interface{}) map[string]interface{} {
	if bs == nil {
		return nil
	}
	norm, err := jsongen.Normalize(bs)
	if err != nil {
		return map[string]interface{}{"<unserialisable>": true}
	}
	m, _ := norm.(map[string]interface{})
	texts := map[string]bool{}
	var collect func(x map[string]interface{})
	collect = func(x map[string]interface{}) {
		for _, k := range []string{"actionError", "error"} {
			if s, ok := x[k].(string); ok && s != "" {
				texts[s] = true
			}
		}
		if lb, ok := x["lastBindings"].(map[string]interface{}); ok {
			collect(lb)
		}
	}
	collect(m)
	var walk func(x interface{}) interface{}
	walk = func(x interface{}) interface{} {
		switch xv := x.(type) {
		case string:
			if texts[xv] {
				return ErrToken
			}
			return xv
		case map[string]interface{}:
			for k, v := range xv {
				xv[k] = walk(v)
			}
			return xv
		case []interface{}:
			for i, v := range xv {
				xv[i] = walk(v)
			}
			return xv
		}
		return x
	}
	walk(m)
	return m
}

// dropErrKeys removes actionError/error from lastBindings (whether "the
// bindings at that point" include the error note is not specified).
func dropErrKeys(bs map[string]interface{}) map[string]interface{} {
	if bs == nil {
		return nil
	}
	if lb, ok := bs["lastBindings"].(map[string]interface{}); ok {
		nlb := jsongen.CopyMap(lb)
		delete(nlb, "actionError")
		delete(nlb, "error")
		out := jsongen.CopyMap(bs)
		out["lastBindings"] = nlb
		return out
	}
	return bs
}

// Observe turns what Spec.Step returned into a StepResult.
func Observe(stride *core.Stride, err error, pending interface{}) StepResult {
	if err != nil {
		return StepResult{Err: true, Consumed: stride != nil && stride.Consumed != nil}
	}
	r := StepResult{}
	if stride == nil {
		return StepResult{Err: true, Route: "nil-stride-without-error"}
	}
	if stride.To == nil {
		r.ToNil = true
	} else {
		r.Node = stride.To.NodeName
		r.Bs = dropErrKeys(scrub(map[string]interface{}(stride.To.Bs)))
		if r.Bs == nil {
			r.Bs = map[string]interface{}{}
		}
	}
	r.Consumed = stride.Consumed != nil
	if stride.Events != nil {
		for _, e := range stride.Events.Emitted {
			n, err := jsongen.Normalize(e)
			if err != nil {
				n = "<unserialisable>"
			}
			r.Emitted = append(r.Emitted, n)
		}
	}
	return r
}

// NormalizeModel applies the same view to a model result.
func NormalizeModel(r StepResult) StepResult {
	if r.Err {
		return StepResult{Err: true, Consumed: r.Consumed, Route: r.Route}
	}
	if !r.ToNil {
		r.Bs = dropErrKeys(scrub(r.Bs))
		if r.Bs == nil {
			r.Bs = map[string]interface{}{}
		}
	}
	return r
}

// Allowed reports whether got is one of the allowed outcomes.
func Allowed(got StepResult, allowed []StepResult) (bool, []string) {
	keys := []string{}
	for _, a := range allowed {
		k := NormalizeModel(a).Key()
		keys = append(keys, k)
		if k == got.Key() {
			return true, nil
		}
	}
	sort.Strings(keys)
	return false, keys
}

func toJSON(x interface{}) string {
	b, _ := json.Marshal(x)
	return string(b)
}
