package sm

import (
	"context"
	"fmt"
	"sort"

	"github.com/Comcast/sheens/core"
	"github.com/Comcast/sheens/interpreters/ecmascript"
	"pgregory.net/rapid"
	"verif/lib/jsongen"
)

// ABranch is an abstract branch.
type ABranch struct {
	HasPattern  bool        `json:"hasPattern,omitempty"`
	Pattern     interface{} `json:"pattern,omitempty"`
	Guard       *Prog       `json:"guard,omitempty"`
	GuardNative bool        `json:"guardNative,omitempty"`
	// GuardScribbles: the native guard writes into the bindings map it
	// is given before deciding (only generated where results are not
	// compared with the step model).
	GuardScribbles bool `json:"guardScribbles,omitempty"`
	// GuardInPlace: the native guard applies its program to the map it is
	// given (deleting and overwriting keys there) and returns that map.
	GuardInPlace bool   `json:"guardInPlace,omitempty"`
	Target       string `json:"target,omitempty"`
}

// ANode is an abstract node.
type ANode struct {
	Action       *Prog     `json:"action,omitempty"`
	ActionNative bool      `json:"actionNative,omitempty"`
	InPlace      bool      `json:"inPlace,omitempty"` // native action writes into the map it is given
	NoBranching  bool      `json:"noBranching,omitempty"`
	BranchType   string    `json:"branchType,omitempty"` // "message", "bindings", ""
	Branches     []ABranch `json:"branches,omitempty"`
}

// ASpec is an abstract specification; Build turns it into a core.Spec.
type ASpec struct {
	Name                string            `json:"name,omitempty"`
	Nodes               map[string]*ANode `json:"nodes"`
	ActionErrorBranches bool              `json:"actionErrorBranches,omitempty"`
	ActionErrorNode     string            `json:"actionErrorNode,omitempty"`
	NoAutoErrorNode     bool              `json:"noAutoErrorNode,omitempty"`
	// Hints for the message generator: values that actions compute
	// (candidates for pattern variables) and whole messages that lead
	// somewhere interesting.
	Hints    []interface{} `json:"hints,omitempty"`
	HintMsgs []interface{} `json:"hintMsgs,omitempty"`
}

// Interpreters used by every check.
func Interpreters() core.InterpretersMap {
	es := ecmascript.NewInterpreter()
	ext := ecmascript.NewInterpreter()
	ext.Extended = true
	return core.InterpretersMap{"ecmascript": es, "": es, "ecmascript-ext": ext, "goja": ext}
}

// Build makes an (uncompiled) core.Spec from Go structures.
func (a *ASpec) Build() *core.Spec {
	s := &core.Spec{Name: a.Name, Nodes: map[string]*core.Node{},
		ActionErrorBranches: a.ActionErrorBranches, ActionErrorNode: a.ActionErrorNode, NoAutoErrorNode: a.NoAutoErrorNode}
	for _, name := range a.NodeNames() {
		an := a.Nodes[name]
		n := &core.Node{}
		if an.Action != nil {
			if an.ActionNative {
				mode := NativeCopy
				if an.InPlace {
					mode = NativeInPlace
				}
				n.Action = an.Action.Native(mode)
			} else {
				n.ActionSource = &core.ActionSource{Interpreter: an.Action.Interp(), Source: an.Action.ES()}
			}
		}
		if !an.NoBranching {
			n.Branches = &core.Branches{Type: an.BranchType}
			for _, ab := range an.Branches {
				b := &core.Branch{Target: ab.Target}
				if ab.HasPattern {
					b.Pattern = jsongen.Copy(ab.Pattern)
				}
				if ab.Guard != nil {
					if ab.GuardNative {
						mode := NativeCopy
						if ab.GuardScribbles {
							mode = NativeScribble
						}
						if ab.GuardInPlace {
							mode = NativeInPlace
						}
						b.Guard = ab.Guard.Native(mode)
					} else {
						b.GuardSource = &core.ActionSource{Interpreter: ab.Guard.Interp(), Source: ab.Guard.ES()}
					}
				}
				n.Branches.Branches = append(n.Branches.Branches, b)
			}
		}
		s.Nodes[name] = n
	}
	return s
}

// Compiled builds and compiles.
func (a *ASpec) Compiled() (*core.Spec, error) {
	s := a.Build()
	if err := s.Compile(context.Background(), Interpreters(), true); err != nil {
		return nil, err
	}
	return s, nil
}

func (a *ASpec) NodeNames() []string {
	names := make([]string, 0, len(a.Nodes))
	for n := range a.Nodes {
		names = append(names, n)
	}
	sort.Strings(names)
	return names
}

// SpecOpts steer spec generation.
type SpecOpts struct {
	// Deterministic: no guarded branch pattern can yield several
	// candidates (no array variable / property variable under a guard),
	// and no unguarded one either (so no TooManyBindingss choice).
	Deterministic bool
	NativeToo     bool // native actions/guards as well as ECMAScript
	InPlace       bool // native actions may write into the given map
	Fail          int  // weight of failing actions (0..10)
	GuardFail     int
	Emit          bool
	UserErrorNode bool
	MaxNodes      int
	Spin          bool
	// Derive: action nodes get branches whose patterns inspect the
	// values their action produced (sub-arrays, nested keys).
	Derive bool
	// Scribble: native guards may write into the map they are given.
	Scribble bool
	// ArrayVar: a message branch whose pattern has an array with a
	// variable in front of a constant (single candidate per message).
	ArrayVar bool
	// PropsWrite: ECMAScript actions and guards may write into the step
	// properties they are shown.
	PropsWrite bool
	// Ext: an action keeps the result of the extended interpreter's
	// _.match helper in the bindings and a branch looks inside it.
	Ext bool
	// IneqBound: an action binds an inequality variable to an integer
	// and a message branch uses it.
	IneqBound bool
	// IneqOdd (with IneqBound): the plain counterpart of the inequality
	// variable may be bound to something that is not a number
	IneqOdd bool
	// Lively: specs that keep moving -- message nodes end with a
	// catch-all branch, action nodes with a default branch, targets
	// are mostly existing nodes.
	Lively bool
}

var nodePool = []string{"start", "n1", "n2", "n3", "aerr"}

// message patterns / messages vocabulary
var (
	msgKeys = []string{"a", "b", "c"}
	msgVals = []interface{}{1.0, 2.0, "a", "b", true}
)

// GenPattern draws a branch pattern (deterministic mode: no arrays
// with variables, no property variables).
func GenPattern(t *rapid.T, det bool, label string) interface{} {
	k := rapid.IntRange(0, 9).Draw(t, label+".pk")
	switch {
	case k == 0:
		return map[string]interface{}{} // catch-all for maps
	case k == 1:
		return "?m" // catch-all, binds everything
	case k <= 4:
		// constant map
		m := map[string]interface{}{}
		for i := rapid.IntRange(1, 2).Draw(t, label+".n"); i > 0; i-- {
			m[rapid.SampledFrom(msgKeys).Draw(t, fmt.Sprintf("%s.k%d", label, i))] = rapid.SampledFrom(msgVals).Draw(t, fmt.Sprintf("%s.v%d", label, i))
		}
		return m
	case k <= 7:
		// variables
		m := map[string]interface{}{}
		for i := rapid.IntRange(1, 2).Draw(t, label+".n"); i > 0; i-- {
			key := rapid.SampledFrom(msgKeys).Draw(t, fmt.Sprintf("%s.k%d", label, i))
			switch rapid.IntRange(0, 4).Draw(t, fmt.Sprintf("%s.vk%d", label, i)) {
			case 0:
				m[key] = rapid.SampledFrom(msgVals).Draw(t, fmt.Sprintf("%s.v%d", label, i))
			case 1:
				m[key] = "?"
			case 2:
				m[key] = "??o"
			default:
				m[key] = rapid.SampledFrom([]string{"?x", "?y", "?n", "?t", "?p", "?p"}).Draw(t, fmt.Sprintf("%s.var%d", label, i))
			}
		}
		return m
	case k == 8:
		if det {
			return map[string]interface{}{"a": []interface{}{1.0}}
		}
		return map[string]interface{}{"a": []interface{}{rapid.SampledFrom([]string{"?x", "?y"}).Draw(t, label+".av")}}
	default:
		if det {
			return map[string]interface{}{"a": map[string]interface{}{"b": "?x"}}
		}
		return map[string]interface{}{"?k": rapid.SampledFrom([]interface{}{"?x", 1.0, "?"}).Draw(t, label+".pv")}
	}
}

// GenMessage draws a message: often an instance of vocabulary that
// the patterns above use.
func GenMessage(t *rapid.T, label string) interface{} {
	k := rapid.IntRange(0, 9).Draw(t, label+".mk")
	switch {
	case k <= 6:
		m := map[string]interface{}{}
		for i := rapid.IntRange(0, 3).Draw(t, label+".n"); i > 0; i-- {
			key := rapid.SampledFrom(msgKeys).Draw(t, fmt.Sprintf("%s.k%d", label, i))
			switch rapid.IntRange(0, 5).Draw(t, fmt.Sprintf("%s.vk%d", label, i)) {
			case 0:
				m[key] = []interface{}{1.0, 2.0}
			case 1:
				m[key] = map[string]interface{}{"b": rapid.SampledFrom(msgVals).Draw(t, fmt.Sprintf("%s.nv%d", label, i))}
			default:
				m[key] = rapid.SampledFrom(msgVals).Draw(t, fmt.Sprintf("%s.v%d", label, i))
			}
		}
		return m
	case k == 7:
		return rapid.SampledFrom(msgVals).Draw(t, label+".sv")
	default:
		return jsongen.Value(t, jsongen.Opts{Depth: 2, Width: 2, Keys: msgKeys, NoNull: true}, label+".v")
	}
}

// GenBindings draws machine bindings (non-nil).
func GenBindings(t *rapid.T, label string) map[string]interface{} {
	bs := map[string]interface{}{}
	for i := rapid.IntRange(0, 4).Draw(t, label+".n"); i > 0; i-- {
		k := rapid.SampledFrom([]string{"x", "y", "n", "t", "cfg!", "id!", "?x", "?n", "a", "b"}).Draw(t, fmt.Sprintf("%s.k%d", label, i))
		if k == "t" {
			bs[k] = rapid.SampledFrom([]interface{}{"n1", "n2", "start", "nowhere", 3.0}).Draw(t, fmt.Sprintf("%s.t%d", label, i))
			continue
		}
		bs[k] = jsongen.Value(t, smallVal, fmt.Sprintf("%s.v%d", label, i))
	}
	if rapid.IntRange(0, 3).Draw(t, label+".aoo") == 0 {
		// an array of objects (and of arrays): what an action can write
		// into element by element
		k := rapid.SampledFrom([]string{"x", "y", "l"}).Draw(t, label+".aook")
		bs[k] = []interface{}{
			map[string]interface{}{"a": rapid.SampledFrom(smallVal.Nums).Draw(t, label+".aoov")},
			map[string]interface{}{"b": []interface{}{1.0}},
		}
	}
	return bs
}

func GenSpec(t *rapid.T, o SpecOpts) *ASpec {
	max := o.MaxNodes
	if max == 0 {
		max = 4
	}
	nn := rapid.IntRange(1, max).Draw(t, "nn")
	a := &ASpec{Name: "gen", Nodes: map[string]*ANode{}}
	names := nodePool[:nn]
	if o.UserErrorNode && rapid.IntRange(0, 2).Draw(t, "uerr") == 0 {
		names = append(append([]string{}, names...), "error")
	}
	a.ActionErrorBranches = rapid.Bool().Draw(t, "aeb")
	switch rapid.IntRange(0, 3).Draw(t, "aen") {
	case 0:
		a.ActionErrorNode = ""
	case 1, 2:
		a.ActionErrorNode = rapid.SampledFrom(names).Draw(t, "aenn")
	default:
		a.ActionErrorNode = "missing"
	}
	if rapid.IntRange(0, 19).Draw(t, "noauto") == 0 {
		a.NoAutoErrorNode = true
	}
	targets := append(append([]string{}, names...), "missing", "@t", "error")
	if o.Lively {
		targets = append(append(append([]string{}, names...), names...), names...)
		targets = append(targets, "missing", "@t")
	}
	for _, name := range names {
		l := "node." + name
		n := &ANode{}
		hasAction := rapid.IntRange(0, 2).Draw(t, l+".act") > 0
		if hasAction {
			n.Action = GenProg(t, ProgOpts{Emit: o.Emit, Fail: o.Fail, Spin: o.Spin, Props: o.PropsWrite}, l+".a")
			if o.NativeToo && rapid.IntRange(0, 2).Draw(t, l+".nat") == 0 {
				n.ActionNative = true
				if o.InPlace && rapid.Bool().Draw(t, l+".inplace") {
					n.InPlace = true
				}
			}
		}
		switch bt := rapid.IntRange(0, 11).Draw(t, l+".bt"); {
		case bt == 0:
			n.NoBranching = true
		case bt == 1:
			n.BranchType = ""
		case bt <= 6:
			n.BranchType = "bindings"
			if !hasAction && bt <= 4 {
				n.BranchType = "message"
			}
		default:
			n.BranchType = "message"
			if hasAction && bt <= 10 {
				// an action node with message branching is a spec
				// error; keep it rare
				n.BranchType = "bindings"
			}
		}
		if !n.NoBranching {
			nb := rapid.IntRange(0, 3).Draw(t, l+".nb")
			for i := 0; i < nb; i++ {
				bl := fmt.Sprintf("%s.b%d", l, i)
				b := ABranch{Target: rapid.SampledFrom(targets).Draw(t, bl+".to")}
				if rapid.IntRange(0, 4).Draw(t, bl+".hp") > 0 {
					b.HasPattern = true
					b.Pattern = GenPattern(t, o.Deterministic, bl)
					if n.BranchType != "message" && rapid.IntRange(0, 2).Draw(t, bl+".bk") > 0 {
						// bindings branching: patterns over binding keys
						b.Pattern = genBindingsPattern(t, bl)
					}
					if _, bare := b.Pattern.(string); bare && n.BranchType != "message" {
						// a bare variable under bindings branching binds the
						// whole bindings, whose variable-named keys would then
						// be re-used as a pattern (outside the supported
						// fragment, and the wording of the resulting error
						// depends on map order)
						b.Pattern = genBindingsPattern(t, bl+".nb")
					}
				}
				if rapid.IntRange(0, 2).Draw(t, bl+".hg") == 0 {
					b.Guard = GenProg(t, ProgOpts{Guard: true, Emit: o.Emit, Fail: o.GuardFail, MaxOps: 3, Props: o.PropsWrite}, bl+".g")
					if o.NativeToo && rapid.IntRange(0, 2).Draw(t, bl+".gn") == 0 {
						b.GuardNative = true
						b.GuardScribbles = o.Scribble && rapid.Bool().Draw(t, bl+".gs")
					}
				}
				n.Branches = append(n.Branches, b)
			}
			if o.Lively && !hasAction && n.BranchType == "message" && rapid.IntRange(0, 3).Draw(t, l+".catch") > 0 {
				n.Branches = append(n.Branches, ABranch{HasPattern: true, Pattern: map[string]interface{}{}, Target: rapid.SampledFrom(names).Draw(t, l+".catchto")})
			}
			if hasAction && (rapid.Bool().Draw(t, l+".def") || o.Lively) {
				// the usual shape: a default branch last
				n.Branches = append(n.Branches, ABranch{Target: rapid.SampledFrom(targets).Draw(t, l+".defto")})
			}
		}
		a.Nodes[name] = n
	}
	if un, have := a.Nodes["error"]; have {
		// user error node: look at the diagnostics
		un.Action = nil
		un.NoBranching = false
		un.BranchType = "bindings"
		un.Branches = []ABranch{
			{HasPattern: true, Pattern: map[string]interface{}{"lastNode": "?ln", "lastBindings": map[string]interface{}{"x": "?lx"}}, Target: "n1"},
			{HasPattern: true, Pattern: map[string]interface{}{"error": "?e", "lastNode": "start"}, Target: "start"},
		}
	}
	return a
}

func genBindingsPattern(t *rapid.T, label string) interface{} {
	m := map[string]interface{}{}
	for i := rapid.IntRange(1, 2).Draw(t, label+".bn"); i > 0; i-- {
		key := rapid.SampledFrom([]string{"x", "y", "n", "t", "actionError", "cfg!", "l"}).Draw(t, fmt.Sprintf("%s.bk%d", label, i))
		switch rapid.IntRange(0, 3).Draw(t, fmt.Sprintf("%s.bvk%d", label, i)) {
		case 0:
			m[key] = rapid.SampledFrom(smallVal.Nums).Draw(t, fmt.Sprintf("%s.bv%d", label, i))
		case 1:
			m[key] = rapid.SampledFrom(smallVal.Strs).Draw(t, fmt.Sprintf("%s.bs%d", label, i))
		default:
			m[key] = rapid.SampledFrom([]string{"?v", "?w", "?"}).Draw(t, fmt.Sprintf("%s.bvar%d", label, i))
		}
	}
	return m
}

// Instantiate replaces the variables of a pattern by values.
func Instantiate(t *rapid.T, p interface{}, label string, produced ...interface{}) interface{} {
	switch pv := p.(type) {
	case string:
		if len(pv) > 0 && pv[0] == '?' {
			if len(produced) > 0 && rapid.Bool().Draw(t, label+".ip") {
				return jsongen.Copy(produced[rapid.IntRange(0, len(produced)-1).Draw(t, label+".ipi")])
			}
			return rapid.SampledFrom(msgVals).Draw(t, label+".iv")
		}
		return pv
	case map[string]interface{}:
		m := map[string]interface{}{}
		for _, k := range jsongen.SortedKeys(pv) {
			kk := k
			if len(k) > 0 && k[0] == '?' {
				kk = rapid.SampledFrom(msgKeys).Draw(t, label+".ik")
			}
			m[kk] = Instantiate(t, pv[k], label+"."+k, produced...)
		}
		return m
	case []interface{}:
		a := make([]interface{}, len(pv))
		for i, x := range pv {
			a[i] = Instantiate(t, x, fmt.Sprintf("%s[%d]", label, i), produced...)
		}
		return a
	}
	return p
}

// GenMessageFor draws a message that is often an instance (plus noise)
// of one of the spec's message-branch patterns.
func GenMessageFor(t *rapid.T, a *ASpec, label string) interface{} {
	var pats []interface{}
	var produced []interface{}
	for _, name := range a.NodeNames() {
		n := a.Nodes[name]
		if n.Action != nil {
			for _, op := range n.Action.Ops {
				if op.Op == "set" && op.V != nil {
					produced = append(produced, op.V)
				}
			}
		}
		if n.NoBranching || n.BranchType != "message" {
			continue
		}
		for _, b := range n.Branches {
			if b.HasPattern && b.Pattern != nil {
				pats = append(pats, b.Pattern)
			}
		}
	}
	produced = append(produced, a.Hints...)
	if len(a.HintMsgs) > 0 && rapid.IntRange(0, 3).Draw(t, label+".hint") == 0 {
		return jsongen.Copy(rapid.SampledFrom(a.HintMsgs).Draw(t, label+".hm"))
	}
	if len(pats) == 0 || rapid.IntRange(0, 3).Draw(t, label+".rnd") == 0 {
		return GenMessage(t, label)
	}
	m := Instantiate(t, pats[rapid.IntRange(0, len(pats)-1).Draw(t, label+".pi")], label, produced...)
	if mm, ok := m.(map[string]interface{}); ok && rapid.Bool().Draw(t, label+".noise") {
		mm[rapid.SampledFrom([]string{"z", "c", "b"}).Draw(t, label+".nk")] = rapid.SampledFrom(msgVals).Draw(t, label+".nv")
	}
	if m == nil {
		return GenMessage(t, label)
	}
	return m
}

// GenLivelySpec draws a machine of the usual shape: message nodes whose
// branches lead to action nodes or other message nodes, action nodes
// that end with a default branch back to a message node.  Walks over
// such specs consume several messages and run several actions.
func GenLivelySpec(t *rapid.T, o SpecOpts) *ASpec {
	a := &ASpec{Name: "lively", Nodes: map[string]*ANode{}}
	nm := rapid.IntRange(1, 3).Draw(t, "nm")
	na := rapid.IntRange(1, 3).Draw(t, "na")
	var mnodes, anodes []string
	for i := 0; i < nm; i++ {
		mnodes = append(mnodes, []string{"start", "n1", "n2"}[i])
	}
	for i := 0; i < na; i++ {
		anodes = append(anodes, []string{"a1", "a2", "a3"}[i])
	}
	all := append(append([]string{}, mnodes...), anodes...)
	a.ActionErrorBranches = rapid.Bool().Draw(t, "aeb")
	switch rapid.IntRange(0, 3).Draw(t, "aen") {
	case 1, 2:
		a.ActionErrorNode = rapid.SampledFrom(mnodes).Draw(t, "aenn")
	case 3:
		a.ActionErrorNode = "missing"
	}
	target := func(l string) string {
		if rapid.IntRange(0, 19).Draw(t, l+".odd") == 0 {
			return rapid.SampledFrom([]string{"missing", "@t", "error"}).Draw(t, l+".oddto")
		}
		return rapid.SampledFrom(all).Draw(t, l+".to")
	}
	for _, name := range mnodes {
		l := "m." + name
		n := &ANode{BranchType: "message"}
		for i := rapid.IntRange(1, 3).Draw(t, l+".nb"); i > 0; i-- {
			bl := fmt.Sprintf("%s.b%d", l, i)
			b := ABranch{HasPattern: true, Pattern: GenPattern(t, o.Deterministic, bl), Target: target(bl)}
			if rapid.IntRange(0, 3).Draw(t, bl+".hg") == 0 {
				b.Guard = GenProg(t, ProgOpts{Guard: true, Emit: o.Emit, Fail: o.GuardFail, MaxOps: 2, Props: o.PropsWrite}, bl+".g")
				b.GuardNative = o.NativeToo && rapid.IntRange(0, 2).Draw(t, bl+".gn") == 0
				b.GuardScribbles = b.GuardNative && o.Scribble && rapid.Bool().Draw(t, bl+".gs")
				if b.GuardScribbles && rapid.Bool().Draw(t, bl+".gnp") {
					b.HasPattern, b.Pattern = false, nil // the guard then gets the step's own bindings
				}
			}
			n.Branches = append(n.Branches, b)
		}
		if o.ArrayVar && rapid.Bool().Draw(t, l+".av") {
			n.Branches = append([]ABranch{{HasPattern: true, Pattern: map[string]interface{}{"l": []interface{}{"?e", "k"}}, Target: target(l + ".avto")}}, n.Branches...)
		}
		if rapid.IntRange(0, 3).Draw(t, l+".catch") > 0 {
			n.Branches = append(n.Branches, ABranch{HasPattern: true, Pattern: map[string]interface{}{}, Target: rapid.SampledFrom(all).Draw(t, l+".catchto")})
		}
		a.Nodes[name] = n
	}
	for _, name := range anodes {
		l := "a." + name
		n := &ANode{BranchType: "bindings"}
		n.Action = GenProg(t, ProgOpts{Emit: o.Emit, Fail: o.Fail, Spin: o.Spin, Props: o.PropsWrite}, l+".a")
		if o.NativeToo && rapid.IntRange(0, 2).Draw(t, l+".nat") == 0 {
			n.ActionNative = true
			n.InPlace = o.InPlace && rapid.Bool().Draw(t, l+".inplace")
		}
		for i := rapid.IntRange(0, 2).Draw(t, l+".nb"); i > 0; i-- {
			bl := fmt.Sprintf("%s.b%d", l, i)
			b := ABranch{HasPattern: true, Pattern: genBindingsPattern(t, bl), Target: target(bl)}
			if rapid.IntRange(0, 3).Draw(t, bl+".hg") == 0 {
				b.Guard = GenProg(t, ProgOpts{Guard: true, Emit: o.Emit, Fail: o.GuardFail, MaxOps: 2, Props: o.PropsWrite}, bl+".g")
			}
			n.Branches = append(n.Branches, b)
		}
		if o.Derive {
			var derived []ABranch
			for oi, op := range n.Action.Ops {
				if (op.Op == "set" || op.Op == "push") && rapid.Bool().Draw(t, fmt.Sprintf("%s.dv%d", l, oi)) {
					var pat interface{}
					switch vv := op.V.(type) {
					case []interface{}:
						if len(vv) > 0 {
							pat = []interface{}{vv[0]}
						} else {
							pat = []interface{}{}
						}
					case map[string]interface{}:
						m := map[string]interface{}{}
						for _, k := range jsongen.SortedKeys(vv) {
							m[k] = vv[k]
							break
						}
						pat = m
					default:
						pat = op.V
					}
					if op.Op == "push" {
						pat = []interface{}{op.V}
						if !jsongen.IsScalar(op.V) {
							pat = "?pv"
						}
					}
					derived = append(derived, ABranch{HasPattern: true, Pattern: map[string]interface{}{op.K: pat}, Target: target(fmt.Sprintf("%s.dt%d", l, oi))})
				}
			}
			n.Branches = append(derived, n.Branches...)
		}
		if rapid.IntRange(0, 9).Draw(t, l+".def") > 0 {
			n.Branches = append(n.Branches, ABranch{Target: rapid.SampledFrom(mnodes).Draw(t, l+".defto")})
		}
		a.Nodes[name] = n
	}
	if o.Derive && rapid.Bool().Draw(t, "bindvar") {
		// an action binds a pattern variable to a structured value; a
		// message branch then uses that variable (its value becomes a
		// sub-pattern)
		an := a.Nodes[rapid.SampledFrom(anodes).Draw(t, "bindvar.a")]
		val := jsongen.Value(t, jsongen.Opts{Depth: 2, Width: 2, Nums: []float64{0, 1, 2, 0.5}, Strs: []string{"a", "b"}, Keys: []string{"a", "b"}, SetLike: true}, "bindvar.v")
		an.Action.Ops = append([]Op{{Op: "set", K: "?p", V: val}}, an.Action.Ops...)
		mn := a.Nodes[rapid.SampledFrom(mnodes).Draw(t, "bindvar.m")]
		mn.Branches = append([]ABranch{{HasPattern: true, Pattern: map[string]interface{}{"c": "?p"}, Target: rapid.SampledFrom(all).Draw(t, "bindvar.to")}}, mn.Branches...)
	}
	if o.Derive && rapid.IntRange(0, 3).Draw(t, "bigtarget") == 0 {
		// an action computes a large whole number that later names the
		// target of a branch ("@t"); a node of that name exists.  (Whole
		// numbers leave the interpreter as integers and come back from
		// JSON as floats: whatever turns them into text must not care.)
		an := a.Nodes[rapid.SampledFrom(anodes).Draw(t, "bigtarget.a")]
		an.Action.Ops = append(append([]Op{}, an.Action.Ops...), Op{Op: "set", K: "t", V: 1234567.0})
		mn := a.Nodes[rapid.SampledFrom(mnodes).Draw(t, "bigtarget.m")]
		mn.Branches = append([]ABranch{{HasPattern: true, Pattern: map[string]interface{}{"go": "?g"}, Target: "@t"}}, mn.Branches...)
		a.Nodes["1234567"] = &ANode{BranchType: "message", Branches: []ABranch{{HasPattern: true, Pattern: map[string]interface{}{}, Target: rapid.SampledFrom(mnodes).Draw(t, "bigtarget.back")}}}
		a.HintMsgs = append(a.HintMsgs, map[string]interface{}{"go": 1.0})
	}
	if o.Ext && rapid.Bool().Draw(t, "ext") {
		an := a.Nodes[rapid.SampledFrom(anodes).Draw(t, "ext.a")]
		{
			src := rapid.SampledFrom([]string{"x", "y", "l"}).Draw(t, "ext.src")
			val := map[string]interface{}{"a": jsongen.Value(t, jsongen.Opts{Depth: 1, Width: 2, Nums: []float64{0, 1, 2, 0.5}, Strs: []string{"a", "b"}, Keys: []string{"a", "b"}, SetLike: true}, "ext.v"), "b": 1.0}
			var pat interface{} = map[string]interface{}{"a": "?w"}
			var srcVal interface{} = val
			// (one result only: the order of several results is not
			// fixed, so keeping them would make the state arbitrary)
			an.Action.Ops = append(append([]Op{}, an.Action.Ops...), Op{Op: "set", K: src, V: srcVal}, Op{Op: "matchStore", K: "found", Keys: []string{src}, V: pat})
			if rapid.Bool().Draw(t, "ext.rand") {
				an.Action.Ops = append(an.Action.Ops, Op{Op: "randLen", K: "n"})
			}
			result := []interface{}{map[string]interface{}{"?w": val["a"]}}
			a.Hints = append(a.Hints, result)
			to := rapid.SampledFrom(all).Draw(t, "ext.to")
			mn := a.Nodes[rapid.SampledFrom(mnodes).Draw(t, "ext.m")]
			if rapid.Bool().Draw(t, "ext.whole") {
				// the whole result becomes the value of a pattern variable,
				// which a message branch uses later (after a message boundary)
				an.Branches = append([]ABranch{{HasPattern: true, Pattern: map[string]interface{}{"found": "?found"}, Target: rapid.SampledFrom(mnodes).Draw(t, "ext.wto")}}, an.Branches...)
				mn.Branches = append([]ABranch{{HasPattern: true, Pattern: map[string]interface{}{"c": "?found"}, Target: to}}, mn.Branches...)
				a.HintMsgs = append(a.HintMsgs, map[string]interface{}{"c": result})
			} else {
				// a node without action looks inside the kept result, after
				// a message boundary
				a.Nodes["r1"] = &ANode{BranchType: "bindings", Branches: []ABranch{
					{HasPattern: true, Pattern: map[string]interface{}{"found": []interface{}{"?fv"}}, Target: to},
					{Target: rapid.SampledFrom(mnodes).Draw(t, "ext.rdef")}}}
				mn.Branches = append([]ABranch{{HasPattern: true, Pattern: map[string]interface{}{"goto": "r1"}, Target: "r1"}}, mn.Branches...)
				a.HintMsgs = append(a.HintMsgs, map[string]interface{}{"goto": "r1"})
			}
		}
	}
	if o.IneqBound && rapid.Bool().Draw(t, "ineq") {
		// an action computes an integer bound for an inequality variable;
		// a message branch then compares against it
		an := a.Nodes[rapid.SampledFrom(anodes).Draw(t, "ineq.a")]
		v := rapid.SampledFrom([]string{"?<lim", "?>=lim", "?!=lim"}).Draw(t, "ineq.v")
		an.Action.Ops = append([]Op{{Op: "set", K: v, V: float64(rapid.IntRange(1, 3).Draw(t, "ineq.b"))}}, an.Action.Ops...)
		if rapid.Bool().Draw(t, "ineq.plain") {
			var pv interface{} = float64(rapid.IntRange(1, 3).Draw(t, "ineq.p"))
			if o.IneqOdd && rapid.Bool().Draw(t, "ineq.odd") {
				pv = rapid.SampledFrom([]interface{}{"text", nil, map[string]interface{}{"a": 1.0}, []interface{}{1.0}, true}).Draw(t, "ineq.oddv")
			}
			an.Action.Ops = append([]Op{{Op: "set", K: "?lim", V: pv}}, an.Action.Ops...)
		}
		// messages on both sides of the bound
		a.HintMsgs = append(a.HintMsgs, map[string]interface{}{"c": 0.0}, map[string]interface{}{"c": 2.0}, map[string]interface{}{"c": 7.0})
		mn := a.Nodes[rapid.SampledFrom(mnodes).Draw(t, "ineq.m")]
		mn.Branches = append([]ABranch{{HasPattern: true, Pattern: map[string]interface{}{"c": v}, Target: rapid.SampledFrom(all).Draw(t, "ineq.to")}}, mn.Branches...)
	}
	if o.UserErrorNode && rapid.IntRange(0, 3).Draw(t, "uerr") == 0 {
		a.Nodes["error"] = &ANode{BranchType: "bindings", Branches: []ABranch{
			{HasPattern: true, Pattern: map[string]interface{}{"lastNode": "?ln", "lastBindings": map[string]interface{}{"x": "?lx"}}, Target: mnodes[0]},
			{HasPattern: true, Pattern: map[string]interface{}{"error": "?e", "lastNode": "a1"}, Target: mnodes[0]},
		}}
	}
	return a
}

// MessagePatterns lists the patterns of the spec's message branches.
func MessagePatterns(a *ASpec) []interface{} {
	var pats []interface{}
	for _, name := range a.NodeNames() {
		n := a.Nodes[name]
		if n.NoBranching || n.BranchType != "message" {
			continue
		}
		for _, b := range n.Branches {
			if b.HasPattern && b.Pattern != nil {
				pats = append(pats, b.Pattern)
			}
		}
	}
	return pats
}

// Doc renders the abstract spec as a generic document with the key
// names a spec author writes: JSON names (README, doc/by-example.md), or
// the YAML names used by specs/*.yaml (lower-cased field names).  It is
// written by hand -- not derived from core.Spec's struct tags -- so
// that it describes the document format, not the current structs.
// Native actions cannot be written down and are left out.
func (a *ASpec) Doc(yamlKeys, jsonSyntax bool) map[string]interface{} {
	key := func(jsonName, yamlName string) string {
		if yamlKeys {
			return yamlName
		}
		return jsonName
	}
	source := func(p *Prog) map[string]interface{} {
		return map[string]interface{}{"interpreter": p.Interp(), "source": p.ES()}
	}
	doc := map[string]interface{}{"name": a.Name}
	if a.ActionErrorBranches {
		doc[key("actionErrorBranches", "actionerrorbranches")] = true
	}
	if a.ActionErrorNode != "" {
		doc[key("actionErrorNode", "actionerrornode")] = a.ActionErrorNode
	}
	if a.NoAutoErrorNode {
		doc[key("noErrorNode", "noautoerrornode")] = true
	}
	if jsonSyntax {
		doc[key("patternSyntax", "patternsyntax")] = "json"
	}
	nodes := map[string]interface{}{}
	for _, name := range a.NodeNames() {
		an := a.Nodes[name]
		n := map[string]interface{}{}
		if an.Action != nil && !an.ActionNative {
			n["action"] = source(an.Action)
		}
		if !an.NoBranching {
			br := map[string]interface{}{}
			if an.BranchType != "" {
				br["type"] = an.BranchType
			}
			var list []interface{}
			for _, ab := range an.Branches {
				b := map[string]interface{}{}
				if ab.Target != "" {
					b["target"] = ab.Target
				}
				if ab.HasPattern && ab.Pattern != nil {
					if jsonSyntax {
						b["pattern"] = js(ab.Pattern)
					} else {
						b["pattern"] = jsongen.Copy(ab.Pattern)
					}
				}
				if ab.Guard != nil && !ab.GuardNative {
					b["guard"] = source(ab.Guard)
				}
				list = append(list, b)
			}
			if list != nil {
				br["branches"] = list
			}
			n["branching"] = br
		}
		nodes[name] = n
	}
	doc["nodes"] = nodes
	return doc
}
