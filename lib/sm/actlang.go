// Package sm holds the generators and reference models for state
// machine specifications: a tiny deterministic action language with
// three renderings (ECMAScript source, native Go action, model), an
// abstract spec with renderers, and an executable reference of the
// documented step rule.
package sm

import (
	"context"
	"encoding/json"
	"errors"
	"fmt"
	"sort"
	"strings"

	"github.com/Comcast/sheens/core"
	"github.com/Comcast/sheens/match"
	"pgregory.net/rapid"
	"verif/lib/jsongen"
)

// Op is one operation of an action/guard program.
type Op struct {
	Op   string      `json:"op"`
	K    string      `json:"k,omitempty"`
	V    interface{} `json:"v,omitempty"`
	Keys []string    `json:"keys,omitempty"`
	Rel  string      `json:"rel,omitempty"`
}

// Prog is a program: ops executed in order, then "return bindings".
type Prog struct {
	Ops []Op `json:"ops"`
	// Partial: the native rendering, when the program fails, returns
	// a partial Execution (what was emitted so far) together with the
	// error, instead of (nil, err).
	Partial bool `json:"partial,omitempty"`
}

// Outcome of running a program (model).
type Outcome struct {
	Kind    string // "ok", "null", "fail"
	Bs      map[string]interface{}
	Emitted []interface{}
	Why     string
	// AtEnd: for "fail" and "null", the bindings as the program had them
	// when it ended (what a native rendering that works in place leaves
	// in the map it was given)
	AtEnd map[string]interface{}
}

func isNum(x interface{}) (float64, bool) {
	switch v := x.(type) {
	case float64:
		return v, true
	case int64:
		return float64(v), true
	case int:
		return float64(v), true
	}
	return 0, false
}

// Run is the model: the program applied to (a deep copy of) bs.
// Spin is reported as a failure (the harness only runs it under a
// deadline).
func (p *Prog) Run(bs map[string]interface{}) Outcome {
	cur := jsongen.CopyMap(bs)
	if cur == nil {
		// no bindings object at all: any access fails in the
		// ECMAScript rendering
		return Outcome{Kind: "fail", Why: "no bindings"}
	}
	var emitted []interface{}
	for _, op := range p.Ops {
		switch op.Op {
		case "set":
			cur[op.K] = jsongen.Copy(op.V)
		case "del":
			delete(cur, op.K)
		case "keep":
			for k := range cur {
				keep := false
				for _, kk := range op.Keys {
					if kk == k {
						keep = true
					}
				}
				if !keep {
					delete(cur, k)
				}
			}
		case "fresh":
			cur = map[string]interface{}{}
		case "inc":
			if n, ok := isNum(cur[op.K]); ok {
				cur[op.K] = n + 1
			} else {
				cur[op.K] = 1.0
			}
		case "calc":
			// a value the script leaves to be computed when it is read
			// (an accessor property): whoever takes the result over gets
			// the computed number
			cur[op.K] = 1999000.0
		case "push":
			if a, ok := cur[op.K].([]interface{}); ok {
				na := append(append([]interface{}{}, a...), jsongen.Copy(op.V))
				cur[op.K] = na
			} else {
				cur[op.K] = []interface{}{jsongen.Copy(op.V)}
			}
		case "copy":
			if v, have := cur[op.K]; have {
				cur[op.Keys[0]] = jsongen.Copy(v)
			}
		case "elemSet":
			// in ECMAScript this writes into the first element of an
			// array of objects in place
			if a, ok := cur[op.K].([]interface{}); ok && len(a) > 0 {
				if m, ok := a[0].(map[string]interface{}); ok {
					na := append([]interface{}{}, a...)
					nm := jsongen.CopyMap(m)
					nm[op.Keys[0]] = jsongen.Copy(op.V)
					na[0] = nm
					cur[op.K] = na
				}
			}
		case "nestSet":
			// in ECMAScript this writes into the nested object in place
			if m, ok := cur[op.K].(map[string]interface{}); ok {
				nm := jsongen.CopyMap(m)
				nm[op.Keys[0]] = jsongen.Copy(op.V)
				cur[op.K] = nm
			}
		case "matchStore":
			// the extended interpreter's _.match helper: its result (a
			// list of bindings, or null) is kept in the bindings
			bss, err := match.Match(jsongen.Copy(op.V), jsongen.Copy(cur[op.Keys[0]]), match.NewBindings())
			if err != nil {
				return Outcome{Kind: "fail", Why: "match error", AtEnd: cur}
			}
			if bss == nil {
				cur[op.K] = nil
			} else {
				list := []interface{}{}
				for _, b := range bss {
					list = append(list, jsongen.CopyMap(map[string]interface{}(b)))
				}
				cur[op.K] = list
			}
		case "randLen":
			// the extended interpreter's _.randstr(): only its length
			// (always 32) is kept, so the result stays deterministic
			cur[op.K] = 32.0
		case "propSet":
			// writes into the step properties: no effect on the result
		case "emit":
			emitted = append(emitted, jsongen.Copy(op.V))
		case "emitOf":
			if v, have := cur[op.K]; have {
				emitted = append(emitted, jsongen.Copy(v))
			}
		case "throw":
			return Outcome{Kind: "fail", Why: "throw", AtEnd: cur}
		case "outNaN":
			return Outcome{Kind: "fail", Why: "unserialisable emission", AtEnd: cur}
		case "spin":
			return Outcome{Kind: "fail", Why: "timeout", AtEnd: cur}
		case "returnNull":
			return Outcome{Kind: "null", Emitted: emitted, AtEnd: cur}
		case "returnScalar":
			return Outcome{Kind: "fail", Why: "not bindings", AtEnd: cur}
		case "returnTrap":
			// the script's result cannot be taken over: reading one of
			// its properties throws
			return Outcome{Kind: "fail", Why: "result cannot be exported", AtEnd: cur}
		case "acceptIf":
			if !accept(cur[op.K], op.Rel, op.V) {
				return Outcome{Kind: "null", Emitted: emitted, AtEnd: cur}
			}
		}
	}
	return Outcome{Kind: "ok", Bs: cur, Emitted: emitted}
}

func accept(x interface{}, rel string, v interface{}) bool {
	switch rel {
	case "==":
		if a, ok := isNum(x); ok {
			b, ok2 := isNum(v)
			return ok2 && a == b
		}
		switch xv := x.(type) {
		case string:
			s, ok := v.(string)
			return ok && s == xv
		case bool:
			b, ok := v.(bool)
			return ok && b == xv
		}
		return false
	case "<", ">":
		a, ok := isNum(x)
		b, ok2 := isNum(v)
		if !ok || !ok2 {
			return false
		}
		if rel == "<" {
			return a < b
		}
		return a > b
	case "has":
		return x != nil
	}
	return false
}

func js(v interface{}) string {
	b, err := json.Marshal(v)
	if err != nil {
		return "null"
	}
	return string(b)
}

// ES renders the program as ECMAScript source for the interpreter.
func (p *Prog) ES() string {
	var sb strings.Builder
	sb.WriteString("var bs = _.bindings;\n")
	for _, op := range p.Ops {
		k := js(op.K)
		switch op.Op {
		case "set":
			fmt.Fprintf(&sb, "bs[%s] = %s;\n", k, js(op.V))
		case "del":
			fmt.Fprintf(&sb, "delete bs[%s];\n", k)
		case "keep":
			fmt.Fprintf(&sb, "for (var p in bs) { if (%s.indexOf(p) < 0) { delete bs[p]; } }\n", js(op.Keys))
		case "fresh":
			sb.WriteString("bs = {};\n")
		case "inc":
			fmt.Fprintf(&sb, "bs[%s] = (typeof bs[%s] === 'number') ? bs[%s] + 1 : 1;\n", k, k, k)
		case "calc":
			// (the bindings the script is given are a host object, on
			// which no accessor can be defined: go on with a script
			// object that has the same properties)
			sb.WriteString("var nbs = {}; for (var p in bs) { nbs[p] = bs[p]; } bs = nbs;\n")
			fmt.Fprintf(&sb, "Object.defineProperty(bs, %s, {enumerable: true, configurable: true, get: function() { var s = 0; for (var i = 0; i < 2000; i++) { s += i; } return s; }, set: function(v) { Object.defineProperty(this, %s, {value: v, writable: true, enumerable: true, configurable: true}); }});\n", k, k)
		case "push":
			fmt.Fprintf(&sb, "bs[%s] = Array.isArray(bs[%s]) ? bs[%s].concat([%s]) : [%s];\n", k, k, k, js(op.V), js(op.V))
		case "copy":
			fmt.Fprintf(&sb, "if (bs[%s] !== undefined) { bs[%s] = JSON.parse(JSON.stringify(bs[%s])); }\n", k, js(op.Keys[0]), k)
		case "nestSet":
			fmt.Fprintf(&sb, "if (bs[%s] !== null && typeof bs[%s] === 'object' && !Array.isArray(bs[%s])) { bs[%s][%s] = %s; }\n", k, k, k, k, js(op.Keys[0]), js(op.V))
		case "elemSet":
			fmt.Fprintf(&sb, "if (Array.isArray(bs[%s]) && bs[%s].length > 0 && bs[%s][0] !== null && typeof bs[%s][0] === 'object' && !Array.isArray(bs[%s][0])) { bs[%s][0][%s] = %s; }\n", k, k, k, k, k, k, js(op.Keys[0]), js(op.V))
		case "matchStore":
			fmt.Fprintf(&sb, "bs[%s] = _.match(%s, (bs[%s] === undefined ? null : bs[%s]), {});\n", k, js(op.V), js(op.Keys[0]), js(op.Keys[0]))
		case "randLen":
			fmt.Fprintf(&sb, "bs[%s] = _.randstr().length;\n", k)
		case "propSet":
			if op.K == "lst" {
				fmt.Fprintf(&sb, "if (_.props && Array.isArray(_.props.lst) && _.props.lst.length > 1 && _.props.lst[1] && typeof _.props.lst[1] === 'object') { _.props.lst[1][%s] = %s; }\n", js(op.Keys[0]), js(op.V))
			} else {
				fmt.Fprintf(&sb, "if (_.props && _.props[%s] !== null && typeof _.props[%s] === 'object') { _.props[%s][%s] = %s; } else if (_.props) { _.props[%s] = %s; }\n", k, k, k, js(op.Keys[0]), js(op.V), k, js(op.V))
			}
		case "emit":
			fmt.Fprintf(&sb, "_.out(%s);\n", js(op.V))
		case "emitOf":
			fmt.Fprintf(&sb, "if (bs[%s] !== undefined) { _.out(bs[%s]); }\n", k, k)
		case "throw":
			fmt.Fprintf(&sb, "throw new Error(%s);\n", js(op.V))
		case "outNaN":
			sb.WriteString("_.out(NaN);\n")
		case "spin":
			sb.WriteString("for (;;) { }\n")
		case "returnNull":
			sb.WriteString("return null;\n")
		case "returnScalar":
			fmt.Fprintf(&sb, "return %s;\n", js(op.V))
		case "returnTrap":
			sb.WriteString("return Object.defineProperty({ok: 1}, \"trap\", {enumerable: true, get: function() { throw new Error(\"trap\"); }});\n")
		case "acceptIf":
			switch op.Rel {
			case "==":
				fmt.Fprintf(&sb, "if (!(bs[%s] === %s)) { return null; }\n", k, js(op.V))
			case "<", ">":
				fmt.Fprintf(&sb, "if (!(typeof bs[%s] === 'number' && bs[%s] %s %s)) { return null; }\n", k, k, op.Rel, js(op.V))
			case "has":
				fmt.Fprintf(&sb, "if (bs[%s] === undefined || bs[%s] === null) { return null; }\n", k, k)
			}
		}
	}
	sb.WriteString("return bs;\n")
	return sb.String()
}

// NativeMode selects how the native rendering treats the map it is given.
type NativeMode int

const (
	NativeCopy     NativeMode = iota // works on a copy
	NativeInPlace                    // extends / returns the given map (top level only), like the repository's own native actions
	NativeScribble                   // writes a top-level key into the map it is given, whatever it then returns (a careless native guard)
)

// CheckCycles makes every native rendering refuse bindings that hold a
// self-containing value (set by checks that feed such values in).
var CheckCycles bool

// OnNativeExec, when set, is told about every execution of a native
// rendering: the program, and how it ended ("ok", "null", "fail").  Checks
// use it to observe the order in which guards are consulted.
var OnNativeExec func(p *Prog, kind string)

// Native renders the program as a core.Action backed by the model.
func (p *Prog) Native(mode NativeMode) core.Action {
	return &core.FuncAction{F: func(ctx context.Context, bs match.Bindings, props core.StepProps) (*core.Execution, error) {
		if CheckCycles && jsongen.Cyclic(map[string]interface{}(bs)) {
			// the model copies values; a native action is free to
			// refuse input it cannot handle
			return nil, errors.New("native action failed: the bindings contain a value that contains itself")
		}
		out := p.Run(map[string]interface{}(bs))
		if OnNativeExec != nil {
			OnNativeExec(p, out.Kind)
		}
		if mode == NativeScribble && bs != nil {
			n, _ := bs["scribbled"].(float64)
			bs["scribbled"] = n + 1
		}
		if mode == NativeInPlace && bs != nil && out.AtEnd != nil && (out.Kind == "fail" || out.Kind == "null") {
			// native code that works on the map it is given has
			// done so by the time it fails or declines
			for k := range bs {
				if _, keep := out.AtEnd[k]; !keep {
					delete(bs, k)
				}
			}
			for k, v := range out.AtEnd {
				bs[k] = v
			}
		}
		switch out.Kind {
		case "fail":
			if p.Partial {
				exe := core.NewExecution(bs)
				exe.AddEmitted("partial")
				return exe, errors.New("native action failed (partial result): " + out.Why)
			}
			return nil, errors.New("native action failed: " + out.Why)
		case "null":
			exe := core.NewExecution(nil)
			for _, e := range out.Emitted {
				exe.AddEmitted(e)
			}
			return exe, nil
		}
		var res match.Bindings
		if mode == NativeInPlace && bs != nil {
			// top-level writes into the given map
			for k := range bs {
				if _, keep := out.Bs[k]; !keep {
					delete(bs, k)
				}
			}
			for k, v := range out.Bs {
				bs[k] = v
			}
			res = bs
		} else {
			res = match.Bindings(out.Bs)
		}
		exe := core.NewExecution(res)
		for _, e := range out.Emitted {
			exe.AddEmitted(e)
		}
		return exe, nil
	}}
}

// Interp names the interpreter the ECMAScript rendering needs: the
// plain one, or the extended one for programs that use its helpers.
func (p *Prog) Interp() string {
	if p.Has("matchStore", "randLen") {
		return "ecmascript-ext"
	}
	return "ecmascript"
}

// Fails reports whether the program can fail / reject regardless of input.
func (p *Prog) Has(ops ...string) bool {
	for _, op := range p.Ops {
		for _, o := range ops {
			if op.Op == o {
				return true
			}
		}
	}
	return false
}

// ---- generators

var (
	bindKeys = []string{"x", "y", "n", "t", "cfg!", "id!", "l", "?p"}
	smallVal = jsongen.Opts{Depth: 1, Width: 2, NoNull: false,
		Strs: []string{"a", "b", "start", "n1", "n2", "error"}, Nums: []float64{0, 1, 2, 3, 0.5}, Keys: []string{"a", "b", "c"}}
)

// ProgOpts steer program generation.
type ProgOpts struct {
	Guard     bool // may reject (acceptIf)
	Emit      bool
	Fail      int  // weight (0..10) of a failing op being included
	Spin      bool // allow non-termination (caller sets a deadline)
	Props     bool // may write into the step properties (ECMAScript only; natives leave them alone)
	Keys      []string
	MaxOps    int
	ValueOpts *jsongen.Opts
}

func GenProg(t *rapid.T, o ProgOpts, label string) *Prog {
	keys := o.Keys
	if keys == nil {
		keys = bindKeys
	}
	vo := smallVal
	if o.ValueOpts != nil {
		vo = *o.ValueOpts
	}
	max := o.MaxOps
	if max == 0 {
		max = 4
	}
	n := rapid.IntRange(0, max).Draw(t, label+".n")
	p := &Prog{}
	for i := 0; i < n; i++ {
		l := fmt.Sprintf("%s.%d", label, i)
		kinds := []string{"set", "set", "del", "inc", "push", "keep", "fresh", "copy", "nestSet", "elemSet", "calc"}
		if o.Emit {
			kinds = append(kinds, "emit", "emit", "emitOf")
		}
		if o.Guard {
			kinds = append(kinds, "acceptIf", "acceptIf", "acceptIf")
		}
		if o.Props {
			kinds = append(kinds, "propSet", "propSet")
		}
		kind := rapid.SampledFrom(kinds).Draw(t, l+".op")
		k := rapid.SampledFrom(keys).Draw(t, l+".k")
		switch kind {
		case "set", "push":
			p.Ops = append(p.Ops, Op{Op: kind, K: k, V: jsongen.Value(t, vo, l+".v")})
		case "calc":
			p.Ops = append(p.Ops, Op{Op: kind, K: k})
		case "propSet":
			p.Ops = append(p.Ops, Op{Op: kind, K: rapid.SampledFrom([]string{"p", "q", "s1", "s2", "lst", "fresh"}).Draw(t, l+".pk"),
				Keys: []string{rapid.SampledFrom([]string{"k", "z", "nested"}).Draw(t, l+".pkk")}, V: jsongen.Scalar(t, jsongen.Opts{NoNull: true, Strs: vo.Strs, Nums: vo.Nums}, l+".pv")})
		case "emit":
			p.Ops = append(p.Ops, Op{Op: kind, V: jsongen.Value(t, vo, l+".v")})
		case "del", "inc", "emitOf":
			p.Ops = append(p.Ops, Op{Op: kind, K: k})
		case "copy":
			p.Ops = append(p.Ops, Op{Op: kind, K: k, Keys: []string{rapid.SampledFrom(keys).Draw(t, l+".k2")}})
		case "nestSet", "elemSet":
			p.Ops = append(p.Ops, Op{Op: kind, K: k, Keys: []string{rapid.SampledFrom([]string{"a", "b", "n"}).Draw(t, l+".nk")}, V: jsongen.Scalar(t, vo, l+".nv")})
		case "keep":
			nk := rapid.IntRange(0, 3).Draw(t, l+".nk")
			ks := []string{}
			for j := 0; j < nk; j++ {
				ks = append(ks, rapid.SampledFrom(keys).Draw(t, fmt.Sprintf("%s.kk%d", l, j)))
			}
			sort.Strings(ks)
			p.Ops = append(p.Ops, Op{Op: "keep", Keys: ks})
		case "fresh":
			p.Ops = append(p.Ops, Op{Op: "fresh"})
		case "acceptIf":
			rel := rapid.SampledFrom([]string{"==", "<", ">", "has"}).Draw(t, l+".rel")
			var v interface{}
			if rel == "<" || rel == ">" {
				v = rapid.SampledFrom(vo.Nums).Draw(t, l+".v")
			} else if rel == "==" {
				v = jsongen.Scalar(t, jsongen.Opts{NoNull: true, Strs: vo.Strs, Nums: vo.Nums}, l+".v")
			}
			p.Ops = append(p.Ops, Op{Op: "acceptIf", K: k, Rel: rel, V: v})
		}
	}
	if o.Fail > 0 && rapid.IntRange(1, 10).Draw(t, label+".f") <= o.Fail {
		kinds := []string{"throw", "returnNull", "returnScalar", "outNaN", "returnTrap"}
		if o.Spin {
			kinds = append(kinds, "spin")
		}
		kind := rapid.SampledFrom(kinds).Draw(t, label+".fk")
		op := Op{Op: kind}
		switch kind {
		case "throw":
			op.V = rapid.SampledFrom([]string{"boom", "bad thing", ""}).Draw(t, label+".fm")
		case "returnScalar":
			op.V = rapid.SampledFrom([]interface{}{42.0, "str", true, []interface{}{1.0}}).Draw(t, label+".fv")
		}
		// failure after the k-th op
		pos := rapid.IntRange(0, len(p.Ops)).Draw(t, label+".fp")
		ops := append([]Op{}, p.Ops[:pos]...)
		ops = append(ops, op)
		ops = append(ops, p.Ops[pos:]...)
		p.Ops = ops
	}
	return p
}
