package escheck

import (
	"bytes"
	"context"
	"encoding/json"
	"fmt"
	"strings"
	"sync"
	"sync/atomic"
	"testing"
	"time"

	"github.com/Comcast/sheens/core"
	"github.com/Comcast/sheens/match"
	"pgregory.net/rapid"
	"verif/lib/ev"
	"verif/lib/jsongen"
	"verif/lib/sm"
)

// ---------------------------------------------------------------- C12

type SharedCase struct {
	Spec     *sm.ASpec                `json:"spec"`
	States   []map[string]interface{} `json:"states"`
	Nodes    []string                 `json:"nodes"`
	Messages [][]interface{}          `json:"messages"`
	Rounds   int                      `json:"rounds"`
	Swap     bool                     `json:"swap,omitempty"`
	// Derive: the swapper prepares each next version the way an updater
	// does: Copy of the published version, Compile, SetSpec.
	Derive bool `json:"derive,omitempty"`
	// Cold (without Swap): the machines meet concurrently a specification
	// that was compiled a moment ago and whose inequality variables have
	// names this process has never matched before; what each obtains
	// alone is computed afterwards.  (Anything remembered lazily - per
	// specification or per name - is written in the concurrent phase.)
	Cold bool `json:"cold,omitempty"`
}

var coldSeq atomic.Int64

// freshNames gives the specification's inequality variables ("?<lim",
// "?lim", ...) names no earlier case has used.
func freshNames(a *sm.ASpec) (*sm.ASpec, error) {
	js, err := json.Marshal(a)
	if err != nil {
		return nil, err
	}
	js = bytes.ReplaceAll(js, []byte(`lim"`), []byte(fmt.Sprintf(`lim%d"`, coldSeq.Add(1))))
	var b sm.ASpec
	if err := json.Unmarshal(js, &b); err != nil {
		return nil, err
	}
	return &b, nil
}

func genShared(t *rapid.T) SharedCase {
	o := sm.SpecOpts{Deterministic: true, NativeToo: true, Fail: 3, GuardFail: 2, Emit: true, UserErrorNode: true, Derive: true, ArrayVar: true, IneqBound: true, Ext: true}
	a := sm.GenLivelySpec(t, o)
	c := SharedCase{Spec: a}
	n := rapid.SampledFrom([]int{4, 4, 8, 8, 16, 32}).Draw(t, "machines")
	for i := 0; i < n; i++ {
		c.States = append(c.States, sm.GenBindings(t, fmt.Sprintf("bs%d", i)))
		c.Nodes = append(c.Nodes, rapid.SampledFrom(a.NodeNames()).Draw(t, fmt.Sprintf("at%d", i)))
		var ms []interface{}
		for j := rapid.IntRange(1, 4).Draw(t, fmt.Sprintf("nm%d", i)); j > 0; j-- {
			ms = append(ms, sm.GenMessageFor(t, a, fmt.Sprintf("m%d.%d", i, j)))
		}
		c.Messages = append(c.Messages, ms)
	}
	c.Rounds = rapid.IntRange(1, 3).Draw(t, "rounds")
	c.Swap = rapid.IntRange(0, 2).Draw(t, "swap") == 0
	if c.Swap {
		c.Derive = rapid.Bool().Draw(t, "derive")
	} else {
		c.Cold = rapid.Bool().Draw(t, "cold")
	}
	return c
}

func walkObs(spec *core.Spec, node string, bs map[string]interface{}, msgs []interface{}) string {
	return walkWith(context.Background(), spec, node, bs, msgs)
}

func walkWith(ctx context.Context, spec *core.Spec, node string, bs map[string]interface{}, msgs []interface{}) string {
	st := &core.State{NodeName: node, Bs: match.Bindings(jsongen.CopyMap(bs))}
	ms := make([]interface{}, len(msgs))
	for i, m := range msgs {
		ms[i] = jsongen.Copy(m)
	}
	var sb strings.Builder
	func() {
		defer func() {
			if x := recover(); x != nil {
				fmt.Fprintf(&sb, "panic: %v", x)
			}
		}()
		w, err := spec.Walk(ctx, st, ms, &core.Control{Limit: 40}, core.StepProps{"p": map[string]interface{}{"q": 1.0}})
		if err != nil || w == nil {
			fmt.Fprintf(&sb, "error %v", err)
			return
		}
		for _, s := range w.Strides {
			to := "nil"
			if s.To != nil {
				to = s.To.NodeName + " " + jsongen.Canon(sm.Scrub(map[string]interface{}(s.To.Bs)))
			}
			em := []interface{}{}
			if s.Events != nil {
				em = append(em, s.Events.Emitted...)
			}
			fmt.Fprintf(&sb, "%s -> %s consumed=%s emitted=%s;", s.From.NodeName, to, jsongen.Canon(s.Consumed), jsongen.Canon(em))
		}
		fmt.Fprintf(&sb, "%s remaining=%d", w.StoppedBecause, len(w.Remaining))
	}()
	return sb.String()
}

func specText(s *core.Spec) string {
	js, _ := json.Marshal(s)
	var sb strings.Builder
	sb.Write(js)
	names := map[string]interface{}{}
	for name := range s.Nodes {
		names[name] = nil
	}
	for _, name := range jsongen.SortedKeys(names) {
		n := s.Nodes[name]
		if n.Branches != nil {
			for _, b := range n.Branches.Branches {
				sb.WriteString(jsongen.CanonTyped(b.Pattern))
			}
		}
	}
	return fmt.Sprint(len(sb.String()), hashString(sb.String()))
}

func hashString(s string) uint64 {
	var h uint64 = 14695981039346656037
	for i := 0; i < len(s); i++ {
		h ^= uint64(s[i])
		h *= 1099511628211
	}
	return h
}

// stamped returns a copy of the abstract spec whose every action also
// records the version in bindings and emits it.
func stamped(a *sm.ASpec, version string) *sm.ASpec {
	raw, _ := json.Marshal(a)
	var b sm.ASpec
	json.Unmarshal(raw, &b)
	for _, n := range b.Nodes {
		if n.Action != nil {
			n.Action.Ops = append([]sm.Op{{Op: "set", K: "ver", V: version}, {Op: "emit", V: map[string]interface{}{"ver": version}}}, n.Action.Ops...)
		}
	}
	return &b
}

func checkShared(c SharedCase) (v ev.Verdict) {
	if c.Cold && !c.Swap {
		fresh, err := freshNames(c.Spec)
		if err != nil {
			v.Failf("renaming: %v", err)
			return
		}
		c.Spec = fresh
		v.Class("cold")
	}
	spec, err := c.Spec.Compiled()
	if err != nil {
		v.Failf("spec does not compile: %v", err)
		return
	}
	n := len(c.States)
	before := specText(spec)
	if !c.Swap {
		var seq []string
		alone := func() {
			seq = make([]string, n)
			for i := 0; i < n; i++ {
				seq[i] = walkObs(spec, c.Nodes[i], c.States[i], c.Messages[i])
			}
		}
		if !c.Cold {
			alone()
		}
		for round := 0; round < c.Rounds; round++ {
			got := make([]string, n)
			var wg sync.WaitGroup
			start := make(chan struct{})
			// meanwhile a host compiles other specifications (new
			// versions, other machines' specs): that must not touch
			// anything the walkers read
			stopCompile := make(chan struct{})
			var cwg sync.WaitGroup
			cwg.Add(1)
			go func() {
				defer cwg.Done()
				<-start
				for i := 0; ; i++ {
					select {
					case <-stopCompile:
						return
					default:
					}
					other := stamped(c.Spec, fmt.Sprintf("other%d", i))
					if i%2 == 0 {
						other.NoAutoErrorNode = !other.NoAutoErrorNode
					}
					other.Compiled()
				}
			}()
			// ... and other machines are walked by impatient callers whose
			// contexts end while their walks are under way (their own
			// results are not judged; what they may leave behind is)
			for k := 0; k < 2; k++ {
				cwg.Add(1)
				go func(k int) {
					defer cwg.Done()
					<-start
					for j := 0; ; j++ {
						select {
						case <-stopCompile:
							return
						default:
						}
						i := (j + k) % n
						ctx, cancel := context.WithCancel(context.Background())
						tm := time.AfterFunc(time.Duration((j*37+k*11)%400)*time.Microsecond, cancel)
						walkWith(ctx, spec, c.Nodes[i], c.States[i], c.Messages[i])
						tm.Stop()
						cancel()
					}
				}(k)
			}
			for i := 0; i < n; i++ {
				wg.Add(1)
				go func(i int) {
					defer wg.Done()
					<-start
					got[i] = walkObs(spec, c.Nodes[i], c.States[i], c.Messages[i])
				}(i)
			}
			close(start)
			wg.Wait()
			close(stopCompile)
			cwg.Wait()
			if seq == nil {
				alone()
			}
			for i := 0; i < n; i++ {
				if got[i] != seq[i] {
					v.Failf("machine %d walked concurrently with %d others against one spec:\n got   %s\n alone %s", i, n-1, ev.Trunc(got[i], 600), ev.Trunc(seq[i], 600))
					return
				}
			}
		}
		if specText(spec) != before {
			v.Failf("the compiled specification changed while it was being used")
			return
		}
		actions := 0
		for _, s := range seq {
			if strings.Contains(s, "a1 ->") || strings.Contains(s, "a2 ->") || strings.Contains(s, "a3 ->") {
				actions++
			}
		}
		v.NonTrivial = n >= 4 && actions >= 1
		v.Class(fmt.Sprintf("machines:%d", n))
		return
	}
	// updates: walkers fetch the current version and walk; a swapper
	// flips between two versions meanwhile
	v.Class("swap")
	s1, err1 := stamped(c.Spec, "v1").Compiled()
	s2, err2 := stamped(c.Spec, "v2").Compiled()
	if err1 != nil || err2 != nil {
		v.Failf("stamped specs do not compile: %v %v", err1, err2)
		return
	}
	exp := map[string][]string{"v1": make([]string, n), "v2": make([]string, n)}
	for i := 0; i < n; i++ {
		exp["v1"][i] = walkObs(s1, c.Nodes[i], c.States[i], c.Messages[i])
		exp["v2"][i] = walkObs(s2, c.Nodes[i], c.States[i], c.Messages[i])
	}
	// derived versions: what an updater makes from a published version,
	// prepared sequentially first to learn what they do
	derive := func(from *core.Spec) *core.Spec {
		next := from.Copy("d")
		if err := next.Compile(context.Background(), nil, false); err != nil {
			return nil
		}
		return next
	}
	if c.Derive {
		d0 := derive(s1)
		var d1 *core.Spec
		if d0 != nil {
			d1 = derive(d0)
		}
		if d0 == nil || d1 == nil {
			c.Derive = false
			v.Class("derive-does-not-compile")
		} else {
			exp["d"] = make([]string, n)
			for i := 0; i < n; i++ {
				exp["d"][i] = walkObs(d0, c.Nodes[i], c.States[i], c.Messages[i])
				if walkObs(d1, c.Nodes[i], c.States[i], c.Messages[i]) != exp["d"][i] {
					// a copy of a copy is not the same specification:
					// no single expectation to compare with
					c.Derive = false
					v.Class("derive-unstable")
					break
				}
			}
		}
	}
	if c.Derive {
		v.Class("swap-derive")
	}
	us := core.NewUpdatableSpec(s1)
	stop := make(chan struct{})
	var swaps int
	var swg sync.WaitGroup
	swg.Add(1)
	go func() {
		defer swg.Done()
		for {
			select {
			case <-stop:
				return
			default:
			}
			if c.Derive && swaps%4 != 3 {
				if next := derive(us.Spec()); next != nil {
					us.SetSpec(next)
				}
			} else if swaps%2 == 0 {
				us.SetSpec(s2)
			} else {
				us.SetSpec(s1)
			}
			swaps++
		}
	}()
	var wg sync.WaitGroup
	bads := make([]string, n)
	mixed := 0
	var mu sync.Mutex
	for i := 0; i < n; i++ {
		wg.Add(1)
		go func(i int) {
			defer wg.Done()
			for r := 0; r < 3*c.Rounds; r++ {
				sp := us.Spec()
				got := walkObs(sp, c.Nodes[i], c.States[i], c.Messages[i])
				if got != exp["v1"][i] && got != exp["v2"][i] && (!c.Derive || got != exp["d"][i]) {
					bads[i] = fmt.Sprintf("machine %d: a walk under concurrent swaps matches neither version:\n got %s\n v1  %s\n v2  %s", i, ev.Trunc(got, 500), ev.Trunc(exp["v1"][i], 500), ev.Trunc(exp["v2"][i], 500))
					return
				}
				if strings.Contains(got, `"ver":"v1"`) && strings.Contains(got, `"ver":"v2"`) {
					// stamps of both versions inside one walk are only
					// legitimate if the state carried one in
					mu.Lock()
					mixed++
					mu.Unlock()
				}
			}
		}(i)
	}
	wg.Wait()
	close(stop)
	swg.Wait()
	for _, b := range bads {
		if b != "" {
			v.Failf("%s", b)
			return
		}
	}
	v.NonTrivial = n >= 4 && swaps > 2
	return
}

func TestC12Shared(t *testing.T) {
	ev.Run(t, ev.Opts{Property: "C12", Name: "shared", Quick: 400, Thorough: 12000, Journal: true,
		Rule: "lively deterministic specs (native and ECMAScript actions/guards, failing and succeeding); 4-32 distinct machine states walked concurrently against ONE compiled spec for 1-3 rounds under the race detector, each result compared with the sequential result and the spec's snapshot compared before/after; update variant: two stamped versions behind an UpdatableSpec flipped by a swapper while walkers call Spec() then Walk, every walk must equal the sequential walk under one whole version; non-trivial = >= 4 goroutines overlapped and >= 1 action ran",
	}, genShared, checkShared)
}
