package escheck

import (
	"context"
	"errors"
	"fmt"
	"math"
	"runtime"
	"strings"
	"sync"
	"sync/atomic"
	"testing"
	"time"

	"github.com/Comcast/sheens/core"
	"github.com/Comcast/sheens/interpreters/ecmascript"
	"github.com/Comcast/sheens/match"
	"pgregory.net/rapid"
	"verif/lib/ev"
)

// ---------------------------------------------------------------- C11

// Non-terminating scripts whose time is spent in interpreted code.
var spinners = []struct{ name, src string }{
	{"empty-loop", `for (;;) { }`},
	{"while-true-count", `var i = 0; while (true) { i++; }`},
	{"do-while", `var i = 0; do { i = (i + 1) % 1000; } while (true);`},
	{"nested-loops", `for (;;) { for (var j = 0; j < 1000; j++) { var k = j * 2; } }`},
	{"recursion-unbounded", `function f(n) { return f(n + 1) + 1; } f(0);`},
	{"mutual-recursion", `function a(n) { return b(n + 1); } function b(n) { return a(n + 1); } a(0);`},
	{"recursion-through-a-builtin", `function f() { [1].forEach(f); } f();`},
	{"array-push-pop", `var xs = []; for (;;) { xs.push(1); xs.pop(); }`},
	{"property-churn", `var o = {}; var i = 0; for (;;) { o["k" + (i % 50)] = i; delete o["k" + ((i + 25) % 50)]; i++; }`},
	{"string-concat-bounded", `var s = ""; for (;;) { s += "x"; if (s.length > 1000) { s = ""; } }`},
	{"closures", `function mk(i) { return function() { return i + 1; }; } var i = 0; for (;;) { i = mk(i)() % 1000; }`},
	{"try-catch-loop", `for (;;) { try { throw new Error("x"); } catch (e) { } }`},
	{"try-finally-swallow", `for (;;) { try { for (;;) { } } finally { continue; } }`},
	{"bindings-loop", `var bs = _.bindings; for (;;) { bs.n = (bs.n || 0) + 1; }`},
	{"emit-then-loop", `_.out({a: 1}); for (;;) { }`},
	{"label-continue", `outer: for (;;) { for (;;) { continue outer; } }`},
	// the script's body ends at once; the looping code runs when the
	// result (or the exception) is taken over by the interpreter
	{"looping-getter-in-result", `var o = {}; Object.defineProperty(o, "a", {enumerable: true, get: function() { for (;;) { } }}); return o;`},
	{"looping-getter-nested", `var o = {x: 1, inner: {}}; Object.defineProperty(o.inner, "a", {enumerable: true, get: function() { for (;;) { } }}); return o;`},
	{"looping-tostring-of-thrown", `throw {toString: function() { for (;;) { } }};`},
}

var terminators = []struct{ name, src string }{
	{"quick", `return {done: true};`},
	{"loop-1e4", `var s = 0; for (var i = 0; i < 10000; i++) { s += i; } return {s: s};`},
	{"emit", `_.out({x: 1}); return _.bindings;`},
	{"throws", `throw new Error("boom");`},
	// executions that end before the script starts (the bindings cannot
	// be prepared for it) or while its result is taken over
	{"bindings:nan", `return _.bindings;`},
	{"bindings:inf-nested", `return {};`},
	{"returns-nan", `return {x: 0/0};`},
	{"syntax-error", `return {;`},
}

func finisherBindings(name string) match.Bindings {
	switch name {
	case "bindings:nan":
		return match.Bindings{"bad": math.NaN()}
	case "bindings:inf-nested":
		return match.Bindings{"a": map[string]interface{}{"b": []interface{}{math.Inf(1)}}}
	}
	return match.Bindings{}
}

type TimeoutCase struct {
	Scripts    []int  `json:"scripts"`     // indices into spinners
	Finishers  []int  `json:"finishers"`   // indices into terminators (run under a long-lived parent context)
	DeadlineMs int    `json:"deadline_ms"` // 0 = already expired
	CancelMs   int    `json:"cancel_ms"`   // >0: cancel instead of deadline
	ViaWalk    bool   `json:"via_walk,omitempty"`
	AsGuard    bool   `json:"as_guard,omitempty"`
	ErrBranch  bool   `json:"err_branches,omitempty"`
	ErrNode    string `json:"err_node,omitempty"`
	// Shape of the context when CancelMs > 0: "" a plain cancellable
	// context; "deadline+cancel" one that also has a (far) deadline of
	// its own; "parent-cancel" a child with a far deadline whose parent
	// is cancelled; "pre-cancelled" cancelled before the execution starts
	// (with a far deadline).  When CancelMs == 0: "" or "parent-deadline"
	// (the deadline is the parent's, the context itself is only
	// cancellable).
	Shape string `json:"shape,omitempty"`
	// GuardLoops (with ErrBranch, not AsGuard): the branch that handles
	// the action's timeout has a guard that does not terminate either -
	// it runs when the context has already ended
	GuardLoops bool `json:"guardLoops,omitempty"`
}

func genTimeout(t *rapid.T) TimeoutCase {
	c := TimeoutCase{}
	n := rapid.SampledFrom([]int{1, 1, 2, 4, 8, 16, 32}).Draw(t, "n")
	for i := 0; i < n; i++ {
		c.Scripts = append(c.Scripts, rapid.IntRange(0, len(spinners)-1).Draw(t, fmt.Sprintf("s%d", i)))
	}
	for i := rapid.IntRange(0, 4).Draw(t, "nf"); i > 0; i-- {
		c.Finishers = append(c.Finishers, rapid.IntRange(0, len(terminators)-1).Draw(t, fmt.Sprintf("f%d", i)))
	}
	c.DeadlineMs = rapid.SampledFrom([]int{0, 1, 1, 5, 5, 20, 20, 100, 300}).Draw(t, "deadline")
	if rapid.IntRange(0, 3).Draw(t, "cancel") == 0 {
		c.CancelMs = rapid.SampledFrom([]int{1, 3, 10, 40}).Draw(t, "cancelms")
		c.Shape = rapid.SampledFrom([]string{"", "deadline+cancel", "parent-cancel", "pre-cancelled", "cancel-with-cause", "parent-cancel-with-cause"}).Draw(t, "shape")
	} else if c.DeadlineMs > 0 && rapid.IntRange(0, 3).Draw(t, "pd") == 0 {
		c.Shape = "parent-deadline"
	}
	if rapid.IntRange(0, 2).Draw(t, "walk") == 0 {
		c.ViaWalk = true
		c.AsGuard = rapid.IntRange(0, 3).Draw(t, "guard") == 0
		c.ErrBranch = rapid.Bool().Draw(t, "eb")
		c.ErrNode = rapid.SampledFrom([]string{"", "aerr"}).Draw(t, "en")
		c.GuardLoops = !c.AsGuard && c.ErrBranch && rapid.Bool().Draw(t, "guardLoops")
	}
	return c
}

// sawLate: a script has already been seen to overrun in this process;
// shrinking need not wait as long for the next one.
var sawLate atomic.Bool

func slack() time.Duration {
	if sawLate.Load() {
		return 1500 * time.Millisecond
	}
	if ev.Tier() == "thorough" {
		return 15 * time.Second
	}
	return 6 * time.Second
}

var interp = ecmascript.NewInterpreter()

func timeoutSpec(src string, c TimeoutCase) (*core.Spec, error) {
	spec := &core.Spec{Name: "timeout", ActionErrorBranches: c.ErrBranch, ActionErrorNode: c.ErrNode,
		Nodes: map[string]*core.Node{"aerr": {}, "done": {}}}
	if c.AsGuard {
		spec.Nodes["start"] = &core.Node{Branches: &core.Branches{Type: "bindings", Branches: []*core.Branch{
			{GuardSource: &core.ActionSource{Interpreter: "ecmascript", Source: src}, Target: "done"}}}}
	} else {
		spec.Nodes["start"] = &core.Node{ActionSource: &core.ActionSource{Interpreter: "ecmascript", Source: src},
			Branches: &core.Branches{Type: "bindings", Branches: []*core.Branch{
				{Pattern: map[string]interface{}{"actionError": "?e"}, Target: "handled"},
				{Target: "done"}}}}
		spec.Nodes["handled"] = &core.Node{}
		if c.GuardLoops {
			spec.Nodes["start"].Branches.Branches[0].GuardSource = &core.ActionSource{Interpreter: "ecmascript", Source: src}
		}
	}
	err := spec.Compile(context.Background(), core.InterpretersMap{"ecmascript": interp}, true)
	return spec, err
}

func checkTimeout(c TimeoutCase) (v ev.Verdict) {
	base := runtime.NumGoroutine()
	var wg sync.WaitGroup
	type res struct {
		took time.Duration
		err  error
		bad  string
	}
	results := make([]res, len(c.Scripts))
	limit := time.Duration(c.DeadlineMs) * time.Millisecond
	if c.CancelMs > 0 {
		limit = time.Duration(c.CancelMs) * time.Millisecond
	}
	var cancels []context.CancelFunc
	var mu sync.Mutex
	start := make(chan struct{})
	for i, si := range c.Scripts {
		wg.Add(1)
		go func(i, si int) {
			defer wg.Done()
			src := spinners[si].src
			var ctx context.Context
			var cancel context.CancelFunc
			<-start
			far := 20 * time.Second
			if c.CancelMs > 0 {
				switch c.Shape {
				case "deadline+cancel":
					ctx, cancel = context.WithTimeout(context.Background(), far)
					time.AfterFunc(limit, cancel)
				case "parent-cancel":
					parent, cancelParent := context.WithCancel(context.Background())
					var cancelChild context.CancelFunc
					ctx, cancelChild = context.WithTimeout(parent, far)
					cancel = func() { cancelParent(); cancelChild() }
					time.AfterFunc(limit, cancelParent)
				case "cancel-with-cause":
					// a host that says why it ends the context
					var cancelCause context.CancelCauseFunc
					ctx, cancelCause = context.WithCancelCause(context.Background())
					cancel = func() { cancelCause(errors.New("host is shutting down")) }
					time.AfterFunc(limit, cancel)
				case "parent-cancel-with-cause":
					parent, cancelCause := context.WithCancelCause(context.Background())
					var cancelChild context.CancelFunc
					ctx, cancelChild = context.WithTimeout(parent, far)
					cancel = func() { cancelCause(errors.New("host is shutting down")); cancelChild() }
					time.AfterFunc(limit, func() { cancelCause(errors.New("host is shutting down")) })
				case "pre-cancelled":
					ctx, cancel = context.WithTimeout(context.Background(), far)
					cancel()
				default:
					ctx, cancel = context.WithCancel(context.Background())
					time.AfterFunc(limit, cancel)
				}
			} else if c.Shape == "parent-deadline" {
				parent, cancelParent := context.WithTimeout(context.Background(), limit)
				var cancelChild context.CancelFunc
				ctx, cancelChild = context.WithCancel(parent)
				cancel = func() { cancelChild(); cancelParent() }
			} else if c.DeadlineMs == 0 {
				ctx, cancel = context.WithDeadline(context.Background(), time.Now().Add(-time.Second))
			} else {
				ctx, cancel = context.WithTimeout(context.Background(), limit)
			}
			mu.Lock()
			cancels = append(cancels, cancel)
			mu.Unlock()
			t0 := time.Now()
			done := make(chan struct{})
			var r res
			go func() {
				defer close(done)
				if !c.ViaWalk {
					_, r.err = interp.Exec(ctx, match.Bindings{"n": 0.0}, nil, src, nil)
					return
				}
				spec, err := timeoutSpec(src, c)
				if err != nil {
					r.bad = "spec does not compile: " + err.Error()
					return
				}
				w, err := spec.Walk(ctx, &core.State{NodeName: "start", Bs: match.Bindings{"n": 0.0}}, nil, &core.Control{Limit: 3}, nil)
				if err != nil || w == nil {
					r.bad = fmt.Sprintf("Walk failed: %v", err)
					return
				}
				to := w.To()
				if to == nil {
					r.bad = "the walk went nowhere although its script cannot terminate"
					return
				}
				var text string
				wantNode := ""
				switch {
				case c.AsGuard:
					wantNode = "error"
					text, _ = to.Bs["error"].(string)
				case c.ErrBranch && c.GuardLoops:
					// the handling branch's guard times out as well
					wantNode = "error"
					text, _ = to.Bs["error"].(string)
				case c.ErrBranch:
					wantNode = "handled"
					text, _ = to.Bs["actionError"].(string)
				case c.ErrNode != "":
					wantNode = c.ErrNode
					text, _ = to.Bs["actionError"].(string)
				default:
					wantNode = "error"
					text, _ = to.Bs["error"].(string)
				}
				if to.NodeName != wantNode {
					r.bad = fmt.Sprintf("timed-out script: machine went to %q, the error settings say %q (bindings %v)", to.NodeName, wantNode, to.Bs)
					return
				}
				if !strings.Contains(text, "timeout") && !(endsAtDepthLimit(src) && strings.Contains(text, "call stack")) {
					r.bad = fmt.Sprintf("timed-out script: the error text is %q, not a timeout error", text)
				}
			}()
			select {
			case <-done:
				r.took = time.Since(t0)
			case <-time.After(limit + slack()):
				r.bad = fmt.Sprintf("script %q still running %v after its %v limit (cancel=%v context=%q)", spinners[si].name, slack(), limit, c.CancelMs > 0, c.Shape)
				sawLate.Store(true)
				r.took = time.Since(t0)
			}
			results[i] = r
		}(i, si)
	}
	// finishing scripts under long-lived parents: nothing may be left
	// behind although the parent context stays alive
	parent, cancelParent := context.WithCancel(context.Background())
	for _, fi := range c.Finishers {
		wg.Add(1)
		go func(fi int) {
			defer wg.Done()
			<-start
			interp.Exec(parent, finisherBindings(terminators[fi].name), nil, terminators[fi].src, nil)
		}(fi)
	}
	close(start)
	wg.Wait()
	defer func() {
		cancelParent()
		for _, cn := range cancels {
			cn()
		}
	}()
	for i, r := range results {
		if r.bad != "" {
			v.Failf("%s", r.bad)
			return
		}
		if !c.ViaWalk {
			if r.err == nil {
				v.Failf("non-terminating script %q returned without an error after %v", spinners[c.Scripts[i]].name, r.took)
				return
			}
			if r.err != ecmascript.Interrupted && !strings.Contains(r.err.Error(), "timeout") && !(endsAtDepthLimit(spinners[c.Scripts[i]].src) && strings.Contains(r.err.Error(), "call stack")) {
				v.Failf("script %q stopped with %q, not the timeout error", spinners[c.Scripts[i]].name, r.err)
				return
			}
		}
	}
	// no goroutine outlives the calls (parents still alive)
	deadline := time.Now().Add(10 * time.Second)
	for runtime.NumGoroutine() > base {
		if time.Now().After(deadline) {
			v.Failf("%d goroutines before the batch, %d still there 10 s after every call returned (parent contexts alive)", base, runtime.NumGoroutine())
			return
		}
		time.Sleep(2 * time.Millisecond)
	}
	v.NonTrivial = true
	v.Class(fmt.Sprintf("deadline:%dms", c.DeadlineMs))
	v.Class(fmt.Sprintf("concurrency:%d", len(c.Scripts)))
	if c.Shape != "" {
		v.Class("context:" + c.Shape)
	}
	if c.CancelMs > 0 {
		v.Class("cancelled")
	}
	if c.ViaWalk {
		if c.AsGuard {
			v.Class("walk:guard")
		} else {
			v.Class("walk:action")
		}
	}
	for _, si := range c.Scripts {
		v.Class("shape:" + spinners[si].name)
	}
	return
}

// endsAtDepthLimit: scripts that recurse without end may be stopped by the
// interpreter's limit on the depth of calls before their time is up - an
// error that says so is as good an end as the timeout error (what the
// property asks for is that they stop, promptly, with an error).
func endsAtDepthLimit(src string) bool {
	return strings.Contains(src, "function f(n) { return f(n + 1)") || strings.Contains(src, "function a(n) { return b(n + 1)") || strings.Contains(src, "forEach(f)")
}

func TestC11Timeout(t *testing.T) {
	ev.Run(t, ev.Opts{Property: "C11", Name: "timeout", Quick: 500, Thorough: 12000, ShrinkTime: "1s",
		Rule: "batches of 1-32 concurrent executions of non-terminating interpreted scripts (loops, recursion, array/property/string churn, try/finally tricks) under deadlines from already-expired to 300 ms or a cancel at 1-40 ms, directly and through Spec.Walk in action and guard position with each error setting, plus terminating scripts under a parent context that stays alive; every call must return within the limit plus a generous slack with the timeout error (routed per the error settings), and the goroutine count must return to its level before the batch; every batch is non-trivial (all scripts are non-terminating)"},
		genTimeout, checkTimeout)
}

// ---- recursion that goes through built-ins

// UnwindCase: unbounded recursion whose every level passes through a
// built-in function (a callback of forEach, map, sort, replace ...).  The
// engine nests those on its own stack; what has piled up when the time is
// up has to be taken down again, and that must not take much longer than
// the time itself.  (Found with a 1 s deadline on the unchanged tree:
// 221 s.  The batches above use deadlines of at most 300 ms and run under
// the race detector, where less piles up.)
type UnwindCase struct {
	Script     int  `json:"script"`
	DeadlineMs int  `json:"deadlineMs"`
	ViaWalk    bool `json:"viaWalk,omitempty"`
}

var unwinders = []struct{ name, src string }{
	{"forEach", `function f() { [1].forEach(f); } f();`},
	{"map", `function f() { return [1, 2].map(f); } f();`},
	{"sort-comparator", `function f() { [2, 1].sort(f); return 0; } f();`},
	{"replace-callback", `function f() { return "a".replace(/a/, f); } f();`},
	{"call-apply", `function f() { return f.apply(null, []); } f();`},
	{"reduce", `function f() { return [1, 2].reduce(f, 0); } f();`},
}

func genUnwind(t *rapid.T) UnwindCase {
	return UnwindCase{Script: rapid.IntRange(0, len(unwinders)-1).Draw(t, "script"),
		DeadlineMs: rapid.SampledFrom([]int{700, 1500}).Draw(t, "deadline"), ViaWalk: rapid.Bool().Draw(t, "walk")}
}

func checkUnwind(c UnwindCase) (v ev.Verdict) {
	u := unwinders[c.Script]
	limit := time.Duration(c.DeadlineMs) * time.Millisecond
	ctx, cancel := context.WithTimeout(context.Background(), limit)
	defer cancel()
	done := make(chan error, 1)
	t0 := time.Now()
	go func() {
		if !c.ViaWalk {
			_, err := ecmascript.NewInterpreter().Exec(ctx, match.Bindings{}, nil, u.src, nil)
			done <- err
			return
		}
		spec := &core.Spec{Name: "unwind", Nodes: map[string]*core.Node{
			"start": {ActionSource: &core.ActionSource{Interpreter: "ecmascript", Source: u.src},
				Branches: &core.Branches{Type: "bindings", Branches: []*core.Branch{{Target: "done"}}}},
			"done": {}}}
		if err := spec.Compile(context.Background(), core.InterpretersMap{"ecmascript": ecmascript.NewInterpreter()}, true); err != nil {
			done <- nil
			return
		}
		w, err := spec.Walk(ctx, &core.State{NodeName: "start", Bs: match.Bindings{}}, nil, nil, nil)
		if err == nil && w != nil && w.To() != nil && w.To().NodeName == "error" {
			err = errors.New("went to the error node")
		}
		done <- err
	}()
	select {
	case err := <-done:
		if err == nil {
			v.Failf("script %q, which never ends by itself, returned without an error after %v", u.name, time.Since(t0))
			return
		}
	case <-time.After(limit + slack()):
		v.Failf("script %q (recursion through a built-in) still running %v after its %v limit", u.name, slack(), limit)
		return
	}
	v.Class("script:" + u.name)
	v.NonTrivial = true
	return
}

func TestC11Unwind(t *testing.T) {
	ev.Run(t, ev.Opts{Property: "C11", Name: "unwind", Quick: 12, Thorough: 120, ShrinkTime: "1s",
		Rule: "unbounded recursion whose every level passes through a built-in (forEach, map, sort, replace, apply, reduce callbacks) under deadlines of 0.7 and 1.5 s, directly and through Spec.Walk: the call must return with an error within the deadline plus the slack - stopped by the deadline or by the interpreter's limit on the depth of calls; every case is non-trivial"},
		genUnwind, checkUnwind)
}
