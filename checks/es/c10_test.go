package escheck

import (
	"context"
	"fmt"
	"sync"
	"testing"

	"github.com/Comcast/sheens/core"
	"github.com/Comcast/sheens/interpreters/ecmascript"
	"github.com/Comcast/sheens/match"
	"pgregory.net/rapid"
	"verif/lib/ev"
	"verif/lib/jsongen"
)

// ---------------------------------------------------------------- C10

// polluters: scripts that try to affect the world other than through
// the bindings they return.  "touches" names what a probe could notice.
var polluters = []struct{ name, src string }{
	{"bindings-nested-set", `_.bindings.a.b = 99; _.bindings.a.z = {deep: [1]}; return _.bindings;`},
	{"bindings-delete", `delete _.bindings.x; delete _.bindings.a; return {};`},
	{"bindings-push", `_.bindings.l.push(9); _.bindings.l[0] = "changed"; return null;`},
	{"bindings-deep", `_.bindings.d.e.f.push({g: 1}); _.bindings.d.e = 5; return _.bindings;`},
	{"bindings-array-of-objects", `_.bindings.items[0].qty = 99; _.bindings.items[1].tags.push("x"); return null;`},
	{"bindings-array-of-arrays", `_.bindings.grid[0].push(9); _.bindings.grid[1][0] = "changed"; return _.bindings;`},
	{"bindings-array-replace-element", `_.bindings.items[0] = {qty: -1}; _.bindings.grid[0] = []; throw new Error("after mutation");`},
	{"props-array-of-objects", `_.props.items[0].qty = 99; _.props.grid[0].push(9); return _.bindings;`},
	{"props-set", `_.props.n = 1000; _.props.added = true; return _.bindings;`},
	{"props-nested-set", `_.props.a.b = 99; return _.bindings;`},
	{"props-array", `_.props.l[0] = "changed"; _.props.l.push(7); return _.bindings;`},
	{"props-delete", `delete _.props.q; delete _.props.a.b; return _.bindings;`},
	{"props-deep", `_.props.d.e.f.push(1); _.props.d.e.g = {h: 2}; return _.bindings;`},
	{"global-implicit", `leak = 1; return _.bindings;`},
	{"global-this", `var g = (0, eval)("this"); g.viaThis = 2; return _.bindings;`},
	{"global-eval", `(0, eval)("var viaEval = 3; leak = 4;"); return _.bindings;`},
	{"global-function-ctor", `new Function("leak = 5; gfun = function() { return 1; };")(); return _.bindings;`},
	{"global-function", `gfun = function() { return 42; }; return _.bindings;`},
	{"proto-object", `Object.prototype.polluted = "yes"; return _.bindings;`},
	{"proto-array-push", `Array.prototype.push = function() { return -1; }; return _.bindings;`},
	{"json-stringify", `JSON.stringify = function() { return "hacked"; }; return _.bindings;`},
	{"proto-string", `String.prototype.sx = 7; return _.bindings;`},
	{"math", `Math.max = function() { return -5; }; return _.bindings;`},
	{"env-out", `_.out = null; return _.bindings;`},
	{"env-bindings", `_.bindings = 42; return {};`},
	{"env-props", `delete _.props; return {};`},
	{"env-itself", `_ = null; return {};`},
	{"throws-after-pollution", `leak = 2; Object.prototype.polluted = "yes"; _.props.a.b = 5; throw new Error("x");`},
	{"freeze", `Object.freeze(Object.prototype); Object.freeze(Array.prototype); return _.bindings;`},
	{"helper-result-edited", `var r = _.match({"a":"?x"}, {"a":"tacos"}, {}); r[0]["?x"] = "chips"; r[0].planted = true; r.push({"more": 1}); return _.bindings;`},
	{"helper-replaced", `_.match = function() { return "hijacked"; }; _.randstr = null; return _.bindings;`},
	{"helper-args-edited", `var p = {"a":"?x"}; var m = {"a":"tacos"}; var b = {}; var r = _.match(p, m, b); p.a = 1; m.a = 2; b.z = 3; return _.bindings;`},
	{"props-shared-second-path", `_.props.s2.k = 99; _.props.lst[1].z = 1; _.props.lst[1].arr.push(2); return _.bindings;`},
	{"bindings-permanent-nested", `_.bindings["cfg!"].limits.max = 99; _.bindings["cfg!"].hosts[0] = "x"; _.bindings["cfg!"].added = 1; return _.bindings;`},
	{"bindings-go-typed", `if (_.bindings.samples) { _.bindings.samples[0] = 99; _.bindings.weights.a = 7; _.bindings.weights.b = 1; _.bindings.points[0].x = 5; } return _.bindings;`},
	{"props-go-typed", `if (_.props && _.props.tags) { _.props.tags.env = "changed"; _.props.tags.added = "x"; _.props.hostnames[0] = "changed"; _.props.typed.inner.k = "changed"; _.props.typed.list[0].k = "changed"; } return _.bindings;`},
	{"define-getter", `Object.defineProperty(Object.prototype, "sneaky", {get: function() { return 1; }}); return _.bindings;`},
}

// the probe reports everything a polluter may have touched
const probeSrc = `
var r = {};
r.leak = typeof leak;
r.viaThis = typeof viaThis; r.viaEval = typeof viaEval;
r.gfun = typeof gfun;
r.polluted = typeof ({}).polluted;
r.sneaky = typeof ({}).sneaky;
var arr = [1]; r.push = arr.push(2); r.arrlen = arr.length;
r.json = JSON.stringify({a: 1});
r.sx = typeof "".sx;
r.max = Math.max(1, 2);
r.out = typeof _.out;
r.envb = typeof _.bindings;
r.envp = typeof _.props;
r.frozen = Object.isFrozen(Object.prototype);
function sorted(o) { if (o === null || typeof o !== 'object') { return o; } if (Array.isArray(o)) { return o.map(sorted); } var ks = Object.keys(o).sort(); var n = {}; for (var i = 0; i < ks.length; i++) { if (ks[i] !== 'ctx') { n[ks[i]] = sorted(o[ks[i]]); } } return n; }
r.bs = JSON.stringify(sorted(_.bindings));
r.props = JSON.stringify(sorted(_.props));
r.helper = typeof _.match;
r.match = JSON.stringify(sorted(_.match({"a":"?x"}, {"a":"tacos"}, {})));
r.match2 = JSON.stringify(sorted(_.match({"a":"?x","b":"?y"}, {"a":"tacos","b":[1,{"c":2}]}, {"?y":[1,{"c":2}]})));
return r;
`

type IsoOp struct {
	Polluter int  `json:"polluter"` // index, or -1 for the probe
	G        int  `json:"g"`        // goroutine (concurrent mode)
	Fresh    bool `json:"fresh,omitempty"`
	// Props: which step properties the caller passes: 0 the full set,
	// 1 an empty map, 2 nil (what Walk(..., nil) and cmd/sheensio do)
	Props int `json:"props,omitempty"`
	// ViaAction: the source is executed through the compiled core.Action
	// that a specification would hold (ActionSource.Compile), not by
	// calling the interpreter directly.
	ViaAction bool `json:"viaAction,omitempty"`
	// Perm: which permanent ('!') bindings the caller's bindings hold:
	// 0 "cfg!", 1 none, 2 "cfg!" and "id!"; 3 (polluters only): what a Go
	// host can leave in a machine - typed slices and maps and a number
	// JSON has no notation for (0/0); a script may not run on those at
	// all, but whether it does or not, the caller's values stay as they are
	Perm int `json:"perm,omitempty"`
}

type IsoCase struct {
	Ops        []IsoOp `json:"ops"`
	Concurrent bool    `json:"concurrent,omitempty"`
	Goroutines int     `json:"goroutines,omitempty"`
}

func genIso(t *rapid.T) IsoCase {
	c := IsoCase{}
	n := rapid.IntRange(2, 10).Draw(t, "n")
	c.Concurrent = rapid.IntRange(0, 3).Draw(t, "conc") == 0
	if c.Concurrent {
		c.Goroutines = rapid.IntRange(2, 16).Draw(t, "g")
		n = rapid.IntRange(c.Goroutines, 3*c.Goroutines).Draw(t, "nc")
	}
	for i := 0; i < n; i++ {
		op := IsoOp{Polluter: -1}
		if rapid.IntRange(0, 2).Draw(t, fmt.Sprintf("k%d", i)) > 0 {
			op.Polluter = rapid.IntRange(0, len(polluters)-1).Draw(t, fmt.Sprintf("p%d", i))
		}
		if c.Concurrent {
			op.G = rapid.IntRange(0, c.Goroutines-1).Draw(t, fmt.Sprintf("g%d", i))
		}
		op.Props = rapid.SampledFrom([]int{0, 0, 0, 1, 2}).Draw(t, fmt.Sprintf("props%d", i))
		op.ViaAction = rapid.Bool().Draw(t, fmt.Sprintf("via%d", i))
		op.Perm = rapid.SampledFrom([]int{0, 0, 1, 2}).Draw(t, fmt.Sprintf("perm%d", i))
		if op.Polluter >= 0 && rapid.IntRange(0, 5).Draw(t, fmt.Sprintf("host%d", i)) == 0 {
			op.Perm = 3
		}
		c.Ops = append(c.Ops, op)
	}
	// always end with a probe
	c.Ops = append(c.Ops, IsoOp{Polluter: -1, Props: rapid.SampledFrom([]int{0, 0, 1, 2}).Draw(t, "propsLast"),
		ViaAction: rapid.Bool().Draw(t, "viaLast"), Perm: rapid.SampledFrom([]int{0, 1, 2}).Draw(t, "permLast")})
	return c
}

func inputBindings() match.Bindings {
	return match.Bindings{"x": 1.0, "a": map[string]interface{}{"b": 1.0}, "l": []interface{}{1.0, 2.0},
		"cfg!":  map[string]interface{}{"limits": map[string]interface{}{"max": 1.0}, "hosts": []interface{}{"h"}},
		"d":     map[string]interface{}{"e": map[string]interface{}{"f": []interface{}{}}},
		"items": []interface{}{map[string]interface{}{"qty": 1.0}, map[string]interface{}{"qty": 2.0, "tags": []interface{}{"t"}}},
		"grid":  []interface{}{[]interface{}{1.0, 2.0}, []interface{}{3.0}}}
}

func inputBindingsPerm(perm int) match.Bindings {
	bs := inputBindings()
	switch perm {
	case 1:
		delete(bs, "cfg!")
	case 2:
		bs["id!"] = "A"
	case 3:
		zero := 0.0
		bs["samples"] = []float64{1, 2, 3}
		bs["weights"] = map[string]float64{"a": 0.5}
		bs["points"] = []map[string]interface{}{{"x": 1.0}}
		if hostNaN {
			bs["mean"] = zero / zero
		}
	}
	return bs
}

// hostNaN: whether mode-3 bindings hold a NaN (always, outside experiments)
var hostNaN = true

func inputPropsMode(mode int) core.StepProps {
	switch mode {
	case 1:
		return core.StepProps{}
	case 2:
		return nil
	}
	return inputProps()
}

func inputProps() core.StepProps {
	// one map reachable by several paths
	shared := map[string]interface{}{"k": 1.0, "arr": []interface{}{1.0}}
	return core.StepProps{
		// what a Go host puts there need not be made of the JSON decoder's
		// types
		"tags": map[string]string{"env": "prod"}, "hostnames": []string{"a", "b"},
		"typed": map[string]interface{}{"inner": map[string]string{"k": "v"}, "list": []map[string]string{{"k": "v"}}},
		"s1":    shared, "s2": shared, "lst": []interface{}{shared, shared}, "n": 5.0, "q": "s", "a": map[string]interface{}{"b": 1.0}, "l": []interface{}{1.0, 2.0},
		"d":     map[string]interface{}{"e": map[string]interface{}{"f": []interface{}{}}},
		"items": []interface{}{map[string]interface{}{"qty": 1.0}},
		"grid":  []interface{}{[]interface{}{1.0, 2.0}, []interface{}{3.0}}}
}

var (
	isoOnce     sync.Once
	isoInterp   *ecmascript.Interpreter
	isoCompiled []interface{}
	isoProbe    interface{}
	isoBaseline [3][3][2]string // per props mode, permanent-bindings mode, direct / via action
	isoActions  []core.Action   // the polluters as compiled actions
	isoProbeAct core.Action
	isoErr      error
)

func isoSetup() {
	isoOnce.Do(func() {
		// the extended interpreter (mcrew's "goja"/"ecmascript-ext"): the
		// plain one plus helper functions in the environment object
		isoInterp = ecmascript.NewInterpreter()
		isoInterp.Extended = true
		ctx := context.Background()
		for _, p := range polluters {
			c, err := isoInterp.Compile(ctx, p.src)
			if err != nil {
				isoErr = fmt.Errorf("polluter %s does not compile: %v", p.name, err)
				return
			}
			isoCompiled = append(isoCompiled, c)
		}
		var err error
		if isoProbe, err = isoInterp.Compile(ctx, probeSrc); err != nil {
			isoErr = err
			return
		}
		// baseline: the probe on a fresh interpreter, nothing run before
		ints := core.InterpretersMap{"ecmascript-ext": isoInterp}
		for _, p := range polluters {
			a, err := (&core.ActionSource{Interpreter: "ecmascript-ext", Source: p.src}).Compile(ctx, ints)
			if err != nil {
				isoErr = fmt.Errorf("polluter %s does not compile as an action: %v", p.name, err)
				return
			}
			isoActions = append(isoActions, a)
		}
		if isoProbeAct, err = (&core.ActionSource{Interpreter: "ecmascript-ext", Source: probeSrc}).Compile(ctx, ints); err != nil {
			isoErr = err
			return
		}
		for mode := 0; mode < 3; mode++ {
			for perm := 0; perm < 3; perm++ {
				fresh := ecmascript.NewInterpreter()
				fresh.Extended = true
				exe, err := fresh.Exec(ctx, inputBindingsPerm(perm), inputPropsMode(mode), probeSrc, nil)
				if err != nil {
					isoErr = fmt.Errorf("probe fails on a fresh interpreter: %v", err)
					return
				}
				isoBaseline[mode][perm][0] = jsongen.Canon(map[string]interface{}(exe.Bs))
				// ... and as a freshly compiled action of a fresh interpreter
				fresh2 := ecmascript.NewInterpreter()
				fresh2.Extended = true
				act, err := (&core.ActionSource{Interpreter: "x", Source: probeSrc}).Compile(ctx, core.InterpretersMap{"x": fresh2})
				if err != nil {
					isoErr = err
					return
				}
				exe, err = act.Exec(ctx, inputBindingsPerm(perm), inputPropsMode(mode))
				if err != nil || exe == nil {
					isoErr = fmt.Errorf("probe action fails on a fresh interpreter: %v", err)
					return
				}
				isoBaseline[mode][perm][1] = jsongen.Canon(map[string]interface{}(exe.Bs))
			}
		}
	})
}

func checkIso(c IsoCase) (v ev.Verdict) {
	isoSetup()
	if isoErr != nil {
		v.Failf("setup: %v", isoErr)
		return
	}
	ctx := context.Background()
	polluted := map[string]bool{}
	probesAfter := 0
	runOp := func(op IsoOp) string {
		bs, props := inputBindingsPerm(op.Perm), inputPropsMode(op.Props)
		sb := jsongen.Snap(map[string]interface{}(bs))
		sp := jsongen.Snap(map[string]interface{}(props))
		var exe *core.Execution
		var err error
		name := "probe"
		via := 0
		if op.ViaAction {
			via = 1
		}
		switch {
		case op.Polluter >= 0 && op.ViaAction:
			name = polluters[op.Polluter].name
			exe, err = isoActions[op.Polluter].Exec(ctx, bs, props)
		case op.Polluter >= 0:
			name = polluters[op.Polluter].name
			exe, err = isoInterp.Exec(ctx, bs, props, polluters[op.Polluter].src, isoCompiled[op.Polluter])
		case op.ViaAction:
			exe, err = isoProbeAct.Exec(ctx, bs, props)
		default:
			exe, err = isoInterp.Exec(ctx, bs, props, probeSrc, isoProbe)
		}
		if jsongen.Snap(map[string]interface{}(bs)).Text != sb.Text {
			return fmt.Sprintf("script %s changed the caller's bindings: %s", name, jsongen.Canon(map[string]interface{}(bs)))
		}
		if jsongen.Snap(map[string]interface{}(props)).Text != sp.Text {
			return fmt.Sprintf("script %s changed the caller's step properties: %s", name, jsongen.Canon(map[string]interface{}(props)))
		}
		if op.Polluter < 0 {
			if err != nil {
				return fmt.Sprintf("the probe failed after other scripts ran: %v", err)
			}
			got := jsongen.Canon(map[string]interface{}(exe.Bs))
			if got != isoBaseline[op.Props][op.Perm][via] {
				return fmt.Sprintf("the probe (props mode %d, permanent bindings mode %d, via compiled action %v) sees the effects of other executions:\n got      %s\n baseline %s", op.Props, op.Perm, op.ViaAction, got, isoBaseline[op.Props][op.Perm][via])
			}
		}
		return ""
	}
	if !c.Concurrent {
		for _, op := range c.Ops {
			if op.Polluter >= 0 {
				polluted[polluters[op.Polluter].name] = true
			} else if len(polluted) > 0 {
				probesAfter++
			}
			if bad := runOp(op); bad != "" {
				v.Failf("%s", bad)
				return
			}
		}
	} else {
		per := make([][]IsoOp, c.Goroutines)
		for _, op := range c.Ops {
			per[op.G%c.Goroutines] = append(per[op.G%c.Goroutines], op)
			if op.Polluter >= 0 {
				polluted[polluters[op.Polluter].name] = true
			} else {
				probesAfter++
			}
		}
		var wg sync.WaitGroup
		bads := make([]string, c.Goroutines)
		start := make(chan struct{})
		for g := range per {
			wg.Add(1)
			go func(g int) {
				defer wg.Done()
				<-start
				for _, op := range per[g] {
					if bad := runOp(op); bad != "" {
						bads[g] = bad
						return
					}
				}
			}(g)
		}
		close(start)
		wg.Wait()
		for _, b := range bads {
			if b != "" {
				v.Failf("concurrent: %s", b)
				return
			}
		}
		v.Class("concurrent")
	}
	for p := range polluted {
		v.Class("polluter:" + p)
	}
	for _, op := range c.Ops {
		if op.Perm == 3 {
			v.Class("host-typed-bindings")
			break
		}
	}
	v.NonTrivial = len(polluted) > 0 && probesAfter > 0
	return
}

func TestC10Isolation(t *testing.T) {
	ev.Run(t, ev.Opts{Property: "C10", Name: "isolation", Quick: 3000, Thorough: 150000, Journal: true,
		Rule: "sequences (and 2-16 goroutine interleavings) of polluter scripts (in-place mutation of bindings and props at depth, globals, prototype and built-in patches, replacing members of the environment object, editing the results and arguments of the extended interpreter's helpers) and a probe script on one interpreter with pre-compiled sources; caller's bindings/props snapshots must be unchanged and every probe result must equal the probe's result on a fresh interpreter; non-trivial = a probe ran after or beside at least one polluter"},
		genIso, checkIso)
}
