package matchcheck

import (
	"encoding/json"
	"fmt"
	"sort"
	"strings"
	"sync"
	"testing"

	"github.com/Comcast/sheens/match"
	"pgregory.net/rapid"
	"verif/lib/ev"
	"verif/lib/jsongen"
	"verif/lib/patgen"
	"verif/lib/refmatch"
)

// ---------------------------------------------------------------- C03

type PureCase struct {
	Pattern  interface{}            `json:"pattern"`
	Message  interface{}            `json:"message"`
	Bindings map[string]interface{} `json:"bindings"`
	Shape    string                 `json:"shape"`
	// IntNumbers: the whole numbers of the message and of the given
	// bindings are Go integers (int64, int), as in values an ECMAScript
	// action produced or a Go host built - not the float64 of JSON
	IntNumbers bool `json:"intNumbers,omitempty"`
}

func intify(v interface{}, n *int) interface{} { return jsongen.Intify(v, n) }

var invalidPatterns = []interface{}{
	[]interface{}{"?x", "?y"},
	[]interface{}{"?x", "?x"},
	[]interface{}{"?", "?x", 1.0},
	map[string]interface{}{"?k": 1.0, "b": 2.0},
	map[string]interface{}{"a": map[string]interface{}{"?k": "?v", "c": "?w"}},
	// ... with a constant key that is visited before the property variable
	// (it sorts before '?') and that the message may lack
	map[string]interface{}{"1": 1.0, "?k": "?v"},
	map[string]interface{}{"#seq": 1.0, "?k": "?v"},
	map[string]interface{}{"a": map[string]interface{}{"1": "?w", "?k": "?v"}},
	// values of Go types the matcher does not know (see goValue)
	map[string]interface{}{"$go": "uint"},
	map[string]interface{}{"$go": "[]string"},
	map[string]interface{}{"$go": "json.Number"},
	map[string]interface{}{"$go": "int8"},
	map[string]interface{}{"$go": "struct"},
}

// goValue materialises the {"$go": T} markers of a case (cases are
// JSON) into values of Go types that are not JSON-decoder types.
func goValue(v interface{}) interface{} {
	switch vv := v.(type) {
	case map[string]interface{}:
		if t, ok := vv["$go"].(string); ok && len(vv) == 1 {
			switch t {
			case "uint":
				return uint(7)
			case "[]string":
				return []string{"a", "b"}
			case "json.Number":
				return json.Number("1")
			case "int8":
				return int8(3)
			default:
				return struct{ A int }{1}
			}
		}
		m := make(map[string]interface{}, len(vv))
		for k, x := range vv {
			m[k] = goValue(x)
		}
		return m
	case []interface{}:
		a := make([]interface{}, len(vv))
		for i, x := range vv {
			a[i] = goValue(x)
		}
		return a
	}
	return v
}

func genPure(t *rapid.T) PureCase {
	c := genPure1(t)
	// unrelated given bindings (any number)
	for i := rapid.IntRange(0, 5).Draw(t, "nb"); i > 0; i-- {
		k := rapid.SampledFrom([]string{"?u1", "?u2", "?u3", "cfg", "k!", "?u4"}).Draw(t, "bk")
		c.Bindings[k] = jsongen.Value(t, jsongen.Opts{Depth: 1, Width: 2}, "bv")
	}
	c.IntNumbers = rapid.IntRange(0, 3).Draw(t, "intNumbers") == 0
	return c
}

func genPure1(t *rapid.T) PureCase {
	if rapid.IntRange(0, 7).Draw(t, "distractorShape") == 0 {
		// an array member that matches the beginning of a pattern member,
		// binds a variable and then fails, beside the member that matches:
		// which of them is tried first depends on map order, the outcome
		// must not
		d := genDistractor(t)
		return PureCase{Pattern: d.Pattern, Message: d.Message, Bindings: map[string]interface{}{}, Shape: "distractor"}
	}
	vo := jsongen.Opts{Depth: 2, Width: 3}
	switch rapid.IntRange(0, 5).Draw(t, "shape") {
	case 0, 1:
		// one variable at several keys; structured values one of which
		// may strictly contain the other
		n := rapid.IntRange(2, 3).Draw(t, "n")
		keys := []string{"a", "b", "c"}[:n]
		p := map[string]interface{}{}
		m := map[string]interface{}{}
		base := jsongen.Value(t, vo, "base")
		for _, k := range keys {
			var pat interface{} = "?x"
			switch rapid.IntRange(0, 5).Draw(t, "wrap"+k) {
			case 0:
				pat = map[string]interface{}{"in": "?x"}
			case 1:
				pat = []interface{}{"?x"}
			case 2:
				pat = "?y"
			}
			p[k] = pat
			var val interface{}
			switch rapid.IntRange(0, 3).Draw(t, "val"+k) {
			case 0:
				val = jsongen.Copy(base)
			case 1:
				val = grow(t, base, "grow"+k)
			case 2:
				val = patgen.Mutate(t, base, "mut"+k)
			default:
				val = jsongen.Value(t, vo, "other"+k)
			}
			switch pat.(type) {
			case map[string]interface{}:
				val = map[string]interface{}{"in": val, "z": 1.0}
			case []interface{}:
				val = []interface{}{val}
			}
			m[k] = val
		}
		if rapid.IntRange(0, 3).Draw(t, "extra") == 0 {
			m["zz"] = jsongen.Value(t, vo, "zz")
		}
		b := map[string]interface{}{}
		if rapid.IntRange(0, 4).Draw(t, "pre") == 0 {
			b["?x"] = jsongen.Copy(base)
		}
		return PureCase{Pattern: p, Message: m, Bindings: b, Shape: "repeated-structured"}
	case 2:
		// invalid at one key, merely non-matching at another
		inv := jsongen.Copy(rapid.SampledFrom(invalidPatterns).Draw(t, "inv"))
		p := map[string]interface{}{rapid.SampledFrom([]string{"a", "a", "z", "bb"}).Draw(t, "invkey"): inv}
		m := map[string]interface{}{"a": jsongen.Value(t, vo, "ma")}
		for _, k := range []string{"b", "c"}[:rapid.IntRange(1, 2).Draw(t, "nk")] {
			c := jsongen.Scalar(t, vo, "c"+k)
			p[k] = c
			switch rapid.IntRange(0, 2).Draw(t, "mm"+k) {
			case 0:
				m[k] = jsongen.Copy(c)
			case 1:
				m[k] = patgen.Mutate(t, c, "mmv"+k)
			}
		}
		if rapid.Bool().Draw(t, "nest") {
			p = map[string]interface{}{"q": p, "r": "?r"}
			m = map[string]interface{}{"q": m, "r": 1.0}
		}
		return PureCase{Pattern: p, Message: m, Bindings: map[string]interface{}{}, Shape: "invalid+mismatch"}
	case 3:
		// inequality variable and its plain counterpart at two keys
		p := map[string]interface{}{"a": "?<=n", "b": "?n"}
		m := map[string]interface{}{"a": rapid.SampledFrom([]float64{3, 5, 7}).Draw(t, "ma"),
			"b": rapid.SampledFrom([]interface{}{3.0, 5.0, "s", nil}).Draw(t, "mb")}
		b := map[string]interface{}{"?<=n": 5.0}
		return PureCase{Pattern: p, Message: m, Bindings: b, Shape: "ineq+plain"}
	default:
		d := rapid.IntRange(1, 3).Draw(t, "depth")
		o := patgen.Opts{Depth: d, Width: 3}
		p := patgen.Pattern(t, o)
		pl := patgen.Plant(t, p, o)
		msg := pl.Message
		if rapid.IntRange(0, 2).Draw(t, "mut") == 0 {
			msg = patgen.Mutate(t, msg, "mut")
		}
		b := pl.Bindings
		if b == nil {
			b = map[string]interface{}{}
		}
		return PureCase{Pattern: p, Message: msg, Bindings: b, Shape: "fragment"}
	}
}

// grow returns a copy of v with something added (a strict superset
// under the containment rules, when v is structured).
func grow(t *rapid.T, v interface{}, label string) interface{} {
	switch vv := v.(type) {
	case map[string]interface{}:
		m := jsongen.CopyMap(vv)
		m["grown"] = rapid.SampledFrom([]interface{}{1.0, "g", true}).Draw(t, label)
		return m
	case []interface{}:
		a := jsongen.Copy(vv).([]interface{})
		return append(a, "grown")
	default:
		return v
	}
}

// nthPerm returns the k-th permutation of 0..n-1 (k taken modulo n!).
func nthPerm(n, k int) []int {
	idx := make([]int, n)
	for i := range idx {
		idx[i] = i
	}
	out := make([]int, 0, n)
	f := 1
	for i := 2; i <= n; i++ {
		f *= i
		if f > 1<<20 {
			break
		}
	}
	k %= f
	for i := n; i > 0; i-- {
		f /= i
		j := 0
		if f > 0 {
			j = k / f
			k %= f
		}
		if j >= len(idx) {
			j = len(idx) - 1
		}
		out = append(out, idx[j])
		idx = append(idx[:j], idx[j+1:]...)
	}
	return out
}

type outcome struct {
	kind string // "results", "nomatch", "error"
	sets []string
}

func (o outcome) String() string {
	return o.kind + " " + strings.Join(o.sets, " | ")
}

func outcomeOf(res []match.Bindings, err error) outcome {
	if err != nil {
		return outcome{kind: "error"}
	}
	if len(res) == 0 {
		return outcome{kind: "nomatch"}
	}
	sets := make([]string, 0, len(res))
	for _, r := range res {
		sets = append(sets, jsongen.Canon(map[string]interface{}(r)))
	}
	sort.Strings(sets)
	return outcome{kind: "results", sets: sets}
}

func maxMapSize(v interface{}) int {
	n := 0
	switch vv := v.(type) {
	case map[string]interface{}:
		n = len(vv)
		for _, x := range vv {
			if k := maxMapSize(x); k > n {
				n = k
			}
		}
	case []interface{}:
		for _, x := range vv {
			if k := maxMapSize(x); k > n {
				n = k
			}
		}
	}
	return n
}

func checkPure(c PureCase) (v ev.Verdict) {
	v.Class("shape:" + c.Shape)
	builds := 6
	if mx := maxMapSize(c.Pattern); mx <= 2 {
		builds = 2
		if maxMapSize(c.Message) > 2 || len(c.Bindings) > 2 {
			builds = 6
		}
	} else if mx > 3 {
		builds = 12
	}
	reps := 3
	var first outcome
	orders := map[string]bool{}
	evals := 0
	for b := 0; b < builds; b++ {
		perm := func(n int) []int { return nthPerm(n, b) }
		p := goValue(jsongen.Rebuild(c.Pattern, perm))
		m := jsongen.Rebuild(c.Message, perm)
		var bs match.Bindings
		if c.Bindings != nil {
			bs = match.Bindings(jsongen.Rebuild(c.Bindings, perm).(map[string]interface{}))
		}
		if c.IntNumbers {
			k := 0
			m = intify(m, &k)
			if bs != nil {
				bs = match.Bindings(intify(map[string]interface{}(bs), &k).(map[string]interface{}))
			}
		}
		sp, sm, sb := jsongen.Snap(p), jsongen.Snap(m), jsongen.Snap(map[string]interface{}(bs))
		if pm, ok := p.(map[string]interface{}); ok {
			// note which iteration order this build shows (diagnostic)
			var ks []string
			for k := range pm {
				ks = append(ks, k)
			}
			orders[strings.Join(ks, ",")] = true
		}
		for rep := 0; rep < reps; rep++ {
			res, err := match.Match(p, m, bs)
			evals++
			o := outcomeOf(res, err)
			if b == 0 && rep == 0 {
				first = o
			} else if o.String() != first.String() {
				v.Failf("outcome depends on map construction/iteration order: %q vs %q", first, o)
				return
			}
			if jsongen.Snap(p).Text != sp.Text {
				v.Failf("Match modified the pattern")
				return
			}
			if jsongen.Snap(m).Text != sm.Text {
				v.Failf("Match modified the message")
				return
			}
			if jsongen.Snap(map[string]interface{}(bs)).Text != sb.Text {
				v.Failf("Match modified the given bindings")
				return
			}
			// independence of the returned maps
			if rep == 0 && len(res) > 0 {
				before := make([]string, len(res))
				for i, r := range res {
					before[i] = jsongen.Canon(map[string]interface{}(r))
				}
				for i, r := range res {
					r["\x00sentinel"] = i
					for k := range r {
						if k != "\x00sentinel" {
							delete(r, k)
							break
						}
					}
					for j, r2 := range res {
						if j > i && jsongen.Canon(map[string]interface{}(r2)) != before[j] {
							v.Failf("changing result %d changed result %d (shared map)", i, j)
							return
						}
					}
					if jsongen.Snap(map[string]interface{}(bs)).Text != sb.Text {
						v.Failf("changing result %d changed the given bindings (shared map)", i)
						return
					}
					if jsongen.Snap(p).Text != sp.Text || jsongen.Snap(m).Text != sm.Text {
						v.Failf("changing result %d changed the pattern or the message", i)
						return
					}
				}
			}
		}
	}
	// The same map objects used for another pattern before: a host that
	// fills in a pattern in place.  A tame sibling of the pattern (its
	// variable keys replaced by constant keys: same shape, same sizes) is
	// matched first; then the very same maps are given the pattern's
	// contents.  The outcome must be the one found above.
	if _, isMap := c.Pattern.(map[string]interface{}); isMap {
		obj := goValue(tamed(jsongen.Copy(c.Pattern)))
		m := jsongen.Copy(c.Message)
		var bs match.Bindings
		if c.Bindings != nil {
			bs = match.Bindings(jsongen.CopyMap(c.Bindings))
		}
		if c.IntNumbers {
			k := 0
			m = intify(m, &k)
			if bs != nil {
				bs = match.Bindings(intify(map[string]interface{}(bs), &k).(map[string]interface{}))
			}
		}
		match.Match(obj, m, bs)
		morph(obj, goValue(jsongen.Copy(c.Pattern)))
		res, err := match.Match(obj, m, bs)
		if o := outcomeOf(res, err); o.String() != first.String() {
			v.Failf("outcome depends on what the pattern's map objects held before (a pattern filled in in place): %q, with fresh maps %q", o, first)
			return
		}
		v.Class("reused-map-objects")
	}
	v.Class("outcome:" + first.kind)
	vars := refmatch.Vars(c.Pattern, nil)
	repeated := false
	for x, n := range vars {
		if n > 1 && !refmatch.IsAnon(x) {
			repeated = true
		}
	}
	if maxMapSize(c.Pattern) >= 2 && (repeated || c.Shape == "invalid+mismatch" || c.Shape == "ineq+plain") && len(orders) >= 2 {
		v.NonTrivial = true
	}
	if len(orders) >= 2 {
		v.Class("orders>=2")
	}
	return
}

// tamed replaces every map key that looks like a variable by a constant key.
func tamed(v interface{}) interface{} {
	switch vv := v.(type) {
	case map[string]interface{}:
		if _, marker := vv["$go"]; marker && len(vv) == 1 {
			return vv
		}
		m := make(map[string]interface{}, len(vv))
		for _, k := range jsongen.SortedKeys(vv) {
			nk := k
			if strings.HasPrefix(k, "?") {
				nk = "zz_" + k[1:]
			}
			m[nk] = tamed(vv[k])
		}
		return m
	case []interface{}:
		a := make([]interface{}, len(vv))
		for i, x := range vv {
			a[i] = tamed(x)
		}
		return a
	}
	return v
}

// morph gives dst the contents of src, keeping dst's map objects wherever
// both have a map (at the top, under the same key, or under the tamed
// spelling of the key).
func morph(dst, src interface{}) {
	dm, ok1 := dst.(map[string]interface{})
	sm, ok2 := src.(map[string]interface{})
	if !ok1 || !ok2 {
		return
	}
	old := map[string]interface{}{}
	for k, x := range dm {
		old[k] = x
		delete(dm, k)
	}
	for k, x := range sm {
		prev, have := old[k]
		if !have && strings.HasPrefix(k, "?") {
			prev, have = old["zz_"+k[1:]]
		}
		if pm, is := prev.(map[string]interface{}); have && is {
			if _, isMap := x.(map[string]interface{}); isMap {
				morph(pm, x)
				dm[k] = pm
				continue
			}
		}
		dm[k] = x
	}
}

func TestC03Pure(t *testing.T) {
	ev.Run(t, ev.Opts{Property: "C03", Name: "pure", Quick: 12000, Thorough: 600000,
		Rule: "pattern/message/bindings rebuilt under permuted map insertion orders (all k! for maps <= 3 keys) and evaluated repeatedly; identical outcome kind and multiset of results, arguments unchanged, results independent maps; non-trivial = pattern has a map with >= 2 keys and a repeated variable / invalid sub-pattern / inequality+counterpart, and >= 2 distinct iteration orders were observed"},
		genPure, checkPure)
}

// Concurrency: one pattern value shared by many goroutines.
type ConcCase struct {
	Pattern  interface{}            `json:"pattern"`
	Bindings map[string]interface{} `json:"bindings"`
	Messages []interface{}          `json:"messages"`
}

func genConc(t *rapid.T) ConcCase {
	d := rapid.IntRange(1, 3).Draw(t, "depth")
	o := patgen.Opts{Depth: d, Width: 3, Strict: true}
	p := patgen.Pattern(t, o)
	c := ConcCase{Pattern: p}
	n := rapid.IntRange(4, 16).Draw(t, "n")
	for i := 0; i < n; i++ {
		pl := patgen.Plant(t, p, o)
		if i == 0 {
			c.Bindings = pl.Bindings
		}
		msg := pl.Message
		if rapid.IntRange(0, 2).Draw(t, "mut") == 0 {
			msg = patgen.Mutate(t, msg, "mut")
		}
		c.Messages = append(c.Messages, msg)
	}
	if c.Bindings == nil {
		c.Bindings = map[string]interface{}{}
	}
	return c
}

func checkConc(c ConcCase) (v ev.Verdict) {
	p := jsongen.Copy(c.Pattern)
	bs := match.Bindings(jsongen.CopyMap(c.Bindings))
	sp := jsongen.Snap(p)
	sb := jsongen.Snap(map[string]interface{}(bs))
	seq := make([]string, len(c.Messages))
	for i, m := range c.Messages {
		res, err := match.Match(jsongen.Copy(c.Pattern), jsongen.Copy(m), match.Bindings(jsongen.CopyMap(c.Bindings)))
		seq[i] = outcomeOf(res, err).String()
	}
	got := make([]string, len(c.Messages))
	var wg sync.WaitGroup
	start := make(chan struct{})
	for i := range c.Messages {
		wg.Add(1)
		go func(i int) {
			defer wg.Done()
			m := jsongen.Copy(c.Messages[i])
			<-start
			for k := 0; k < 3; k++ {
				res, err := match.Match(p, m, bs)
				got[i] = outcomeOf(res, err).String()
				for _, r := range res {
					r["\x00w"] = i // results are the caller's to change
				}
			}
		}(i)
	}
	close(start)
	wg.Wait()
	matched := 0
	for i := range got {
		if got[i] != seq[i] {
			v.Failf("goroutine %d got %q, alone it gets %q", i, got[i], seq[i])
			return
		}
		if strings.HasPrefix(got[i], "results") {
			matched++
		}
	}
	if jsongen.Snap(p).Text != sp.Text || jsongen.Snap(map[string]interface{}(bs)).Text != sb.Text {
		v.Failf("the shared pattern or bindings changed")
		return
	}
	v.NonTrivial = len(c.Messages) >= 4 && matched >= 2
	v.Class(fmt.Sprintf("goroutines:%d", len(c.Messages)/4*4))
	return
}

func TestC03Concurrent(t *testing.T) {
	ev.Run(t, ev.Opts{Property: "C03", Name: "concurrent", Quick: 1500, Thorough: 60000, Journal: true,
		Rule: "one pattern value and one bindings value shared by 4-16 goroutines matching different messages under the race detector; every goroutine's outcome equals the sequential one; non-trivial = >= 4 goroutines and >= 2 of them matched"},
		genConc, checkConc)
}

func FuzzC03Pure(f *testing.F) {
	ev.Fuzz(f, ev.Opts{Property: "C03", Name: "pure"}, genPure, checkPure)
}
