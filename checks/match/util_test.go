package matchcheck

import "encoding/json"

func jsonUnmarshal(raw []byte, x interface{}) error { return json.Unmarshal(raw, x) }
