package matchcheck

import (
	"fmt"
	"sort"
	"testing"

	"github.com/Comcast/sheens/match"
	"pgregory.net/rapid"
	"verif/lib/ev"
	"verif/lib/jsongen"
	"verif/lib/patgen"
	"verif/lib/refmatch"
)

// ---------------------------------------------------------------- C01

type SoundCase struct {
	Pattern  interface{}            `json:"pattern"`
	Message  interface{}            `json:"message"`
	Bindings map[string]interface{} `json:"bindings"`
	Kind     string                 `json:"kind"`
}

func depth() int {
	if ev.Tier() == "thorough" {
		return 5
	}
	return 3
}

// drawDepth prefers the deeper patterns.
func drawDepth(t *rapid.T) int {
	d := depth()
	return rapid.SampledFrom([]int{0, 1, 1, 2, 2, 2, d, d, d, d - 1}).Draw(t, "depth")
}

// genDistractor builds the shape "a member of a message array matches
// the beginning of a pattern member, binds a variable, and then fails; the
// member that does match comes later (or earlier - arrays are sets)":
// whatever the failed attempt bound must not survive into the result.
func genDistractor(t *rapid.T) SoundCase {
	v := rapid.SampledFrom([]string{"??x", "?x", "??x"}).Draw(t, "dvar")
	k1 := rapid.SampledFrom([]string{"a", "b"}).Draw(t, "dk1") // the variable's key
	k2 := rapid.SampledFrom([]string{"c", "d"}).Draw(t, "dk2") // sorts later; decides
	c1 := jsongen.Scalar(t, jsongen.Opts{NoNull: true}, "dc1")
	c2 := jsongen.Scalar(t, jsongen.Opts{NoNull: true}, "dc2")
	if refmatch.Equal(c1, c2) {
		c2 = "other"
	}
	pm := map[string]interface{}{k1: v, k2: c1}
	distractor := map[string]interface{}{k1: jsongen.Scalar(t, jsongen.Opts{NoNull: true}, "dv"), k2: c2}
	witness := map[string]interface{}{k2: c1}
	if v == "?x" || rapid.Bool().Draw(t, "dwit") {
		witness[k1] = jsongen.Scalar(t, jsongen.Opts{NoNull: true}, "dw")
	}
	members := []interface{}{distractor, witness}
	for i := rapid.IntRange(0, 2).Draw(t, "dextra"); i > 0; i-- {
		members = append(members, map[string]interface{}{k1: jsongen.Scalar(t, jsongen.Opts{NoNull: true}, fmt.Sprintf("de%d", i)), k2: "neither", "e": float64(i)})
	}
	var p, m interface{} = []interface{}{pm}, members
	if rapid.Bool().Draw(t, "dnest") {
		p, m = map[string]interface{}{"arr": p, "k": "?y"}, map[string]interface{}{"arr": m, "k": 1.0}
	}
	return SoundCase{Pattern: p, Message: m, Bindings: map[string]interface{}{}, Kind: "distractor"}
}

func genSound(t *rapid.T) SoundCase {
	if rapid.IntRange(0, 9).Draw(t, "distractor") == 0 {
		return genDistractor(t)
	}
	d := drawDepth(t)
	o := patgen.Opts{Depth: d, Width: 3}
	p := patgen.Pattern(t, o)
	pl := patgen.Plant(t, p, o)
	c := SoundCase{Pattern: p, Bindings: pl.Bindings}
	switch k := rapid.IntRange(0, 7).Draw(t, "msgkind"); {
	case k <= 3:
		c.Kind = "planted"
		c.Message = pl.Message
	case k <= 5:
		c.Kind = "mutated"
		c.Message = patgen.Mutate(t, pl.Message, "mut")
	default:
		c.Kind = "independent"
		c.Message = jsongen.Value(t, jsongen.Opts{Depth: d + 1, Width: 3}, "msg")
	}
	if c.Bindings == nil {
		c.Bindings = map[string]interface{}{}
	}
	return c
}

func patternFeatures(p interface{}, b map[string]interface{}) (feats []string) {
	vars := refmatch.Vars(p, nil)
	seen := map[string]bool{}
	add := func(s string) {
		if !seen[s] {
			seen[s] = true
			feats = append(feats, s)
		}
	}
	for v, n := range vars {
		if n > 1 && !refmatch.IsAnon(v) {
			add("repeated-var")
		}
		if _, pre := b[v]; pre {
			add("prebound-var")
			if !jsongen.IsScalar(b[v]) {
				add("prebound-structured")
			}
		}
		if refmatch.IsOptional(v) {
			add("optional")
		}
		if _, _, is := refmatch.Ineq(v); is {
			if _, num := b[v].(float64); num {
				add("ineq-bound")
			} else {
				add("ineq-inactive")
			}
		}
		if refmatch.IsAnon(v) {
			add("anonymous")
		}
	}
	var walk func(x interface{}, d int)
	walk = func(x interface{}, d int) {
		switch xv := x.(type) {
		case map[string]interface{}:
			for k, y := range xv {
				if refmatch.IsVar(k) {
					add("propvar")
				}
				walk(y, d)
			}
		case []interface{}:
			add("array")
			if d > 0 {
				add("nested-array")
			}
			for _, y := range xv {
				walk(y, d+1)
			}
		}
	}
	walk(p, 0)
	sort.Strings(feats)
	return feats
}

func checkSound(c SoundCase) (v ev.Verdict) {
	p := jsongen.Copy(c.Pattern)
	m := jsongen.Copy(c.Message)
	b := match.Bindings(jsongen.CopyMap(c.Bindings))
	if b == nil {
		b = match.Bindings{}
	}
	res, err := match.Match(p, m, b)
	if err != nil {
		v.Failf("Match returned an error for a pattern of the supported fragment: %v", err)
		return
	}
	feats := patternFeatures(c.Pattern, c.Bindings)
	v.Class("msg:" + c.Kind)
	if len(res) == 0 {
		v.Class("no-match")
		return
	}
	if len(res) > 1 {
		v.Class("multi-result")
	}
	vars := refmatch.Vars(c.Pattern, nil)
	allowed := map[string]bool{}
	for x := range vars {
		allowed[x] = true
		if _, plain, is := refmatch.Ineq(x); is {
			allowed[plain] = true
		}
	}
	for i, r := range res {
		R := map[string]interface{}(r)
		for k, want := range c.Bindings {
			got, have := R[k]
			if !have {
				v.Failf("result %d lost the given binding %q", i, k)
				return
			}
			if !refmatch.Equal(got, want) {
				v.Failf("result %d changed the given binding %q: %s -> %s", i, k, ev.JS(want), ev.JS(got))
				return
			}
		}
		for k := range R {
			if _, given := c.Bindings[k]; given {
				continue
			}
			if k == "?" {
				v.Failf("result %d binds the anonymous variable", i)
				return
			}
			if !allowed[k] {
				v.Failf("result %d binds %q, which does not occur in the pattern", i, k)
				return
			}
		}
		if !refmatch.Contained(c.Pattern, c.Message, R, c.Bindings) {
			v.Failf("result %d %s substituted into the pattern is not contained in the message", i, ev.JS(R))
			return
		}
	}
	if len(feats) > 0 {
		v.NonTrivial = true
	}
	for _, f := range feats {
		v.Class(f)
	}
	return
}

func TestC01Sound(t *testing.T) {
	ev.Run(t, ev.Opts{Property: "C01", Name: "sound", Quick: 200000, Thorough: 6000000,
		Rule: "pattern of the supported fragment x initial bindings x message (planted around an instance / mutated / independent); non-trivial = Match returned >= 1 result and the pattern has an array, a repeated, pre-bound, optional, anonymous or inequality variable or a property variable; distinct = distinct case JSON"},
		genSound, checkSound)
}

// ---------------------------------------------------------------- C02

func checkPlanted(c patgen.Planted) (v ev.Verdict) {
	p := jsongen.Copy(c.Pattern)
	m := jsongen.Copy(c.Message)
	b := match.Bindings(jsongen.CopyMap(c.Bindings))
	if b == nil {
		b = match.Bindings{}
	}
	res, err := match.Match(p, m, b)
	if err != nil {
		v.Failf("Match returned an error: %v", err)
		return
	}
	found := false
	for _, r := range res {
		ok := true
		for k, want := range c.Sigma {
			got, have := r[k]
			if !have || !refmatch.Equal(got, want) {
				ok = false
				break
			}
		}
		if ok {
			found = true
			break
		}
	}
	if !found {
		v.Failf("the planted assignment %s is not among the %d results %s", ev.JS(c.Sigma), len(res), ev.Trunc(ev.JS(res), 400))
		return
	}
	feats := patternFeatures(c.Pattern, c.Bindings)
	for _, f := range feats {
		v.Class(f)
	}
	if c.Distractors > 0 {
		v.Class("distractors")
	}
	if c.NearMisses > 0 {
		v.Class("near-miss")
	}
	if len(res) > 1 {
		v.Class("multi-result")
	}
	v.NonTrivial = c.Distractors > 0 && (c.NearMisses > 0 || len(res) > 1) && len(feats) > 0
	return
}

func genPlanted(t *rapid.T) patgen.Planted {
	d := drawDepth(t)
	o := patgen.Opts{Depth: d, Width: 3, Strict: true}
	p := patgen.Pattern(t, o)
	return patgen.Plant(t, p, o)
}

func TestC02Planted(t *testing.T) {
	ev.Run(t, ev.Opts{Property: "C02", Name: "planted", Quick: 100000, Thorough: 4000000,
		Rule: "pattern x assignment sigma x message = sigma(pattern) plus extra keys/members at every depth; non-trivial = distractors were added, at least one near-miss (partial match) or several results, and the pattern has a variable/array feature"},
		genPlanted, checkPlanted)
}

type PlainCase struct {
	Pattern interface{} `json:"pattern"`
	Message interface{} `json:"message"`
	Kind    string      `json:"kind"`
}

func genPlain(t *rapid.T) PlainCase {
	d := drawDepth(t)
	o := patgen.Opts{Depth: d, Width: 3, PlainOnly: true}
	p := patgen.Pattern(t, o)
	c := PlainCase{Pattern: p}
	if rapid.IntRange(0, 3).Draw(t, "mk") > 0 {
		pl := patgen.Plant(t, p, o)
		c.Message = pl.Message
		c.Kind = "planted"
		if rapid.IntRange(0, 3).Draw(t, "mut") == 0 {
			c.Message = patgen.Mutate(t, pl.Message, "mut")
			c.Kind = "mutated"
		}
	} else {
		c.Message = jsongen.Value(t, jsongen.Opts{Depth: d + 1, Width: 3, SetLike: true}, "msg")
		c.Kind = "independent"
	}
	return c
}

// setLike reports whether no array in v has duplicate scalar members.
func setLike(v interface{}) bool {
	switch vv := v.(type) {
	case map[string]interface{}:
		for _, x := range vv {
			if !setLike(x) {
				return false
			}
		}
	case []interface{}:
		seen := map[string]bool{}
		for _, x := range vv {
			if jsongen.IsScalar(x) {
				c := jsongen.Canon(x)
				if seen[c] {
					return false
				}
				seen[c] = true
			} else if !setLike(x) {
				return false
			}
		}
	}
	return true
}

func resultSet(res []match.Bindings) []string {
	seen := map[string]bool{}
	for _, r := range res {
		seen[jsongen.Canon(map[string]interface{}(r))] = true
	}
	out := make([]string, 0, len(seen))
	for k := range seen {
		out = append(out, k)
	}
	sort.Strings(out)
	return out
}

func checkPlain(c PlainCase) (v ev.Verdict) {
	if !setLike(c.Message) || !setLike(c.Pattern) {
		v.Skip, v.SkipReason = true, "not-set-like"
		return
	}
	res, err := match.Match(jsongen.Copy(c.Pattern), jsongen.Copy(c.Message), match.Bindings{})
	if err != nil {
		v.Failf("Match returned an error: %v", err)
		return
	}
	want, ambiguous := refmatch.Embeddings(c.Pattern, c.Message)
	if ambiguous {
		v.Skip, v.SkipReason = true, "repeated-variable-structured"
		return
	}
	got := resultSet(res)
	if fmt.Sprint(got) != fmt.Sprint(want) {
		v.Failf("returned sets %v differ from the embeddings %v", got, want)
		return
	}
	v.Class("msg:" + c.Kind)
	v.Class(fmt.Sprintf("embeddings:%d", min(len(want), 4)))
	v.NonTrivial = len(want) >= 2 || (len(want) == 1 && len(refmatch.Vars(c.Pattern, nil)) > 0)
	return
}

func min(a, b int) int {
	if a < b {
		return a
	}
	return b
}

func TestC02Plain(t *testing.T) {
	ev.Run(t, ev.Opts{Property: "C02", Name: "plain", Quick: 100000, Thorough: 4000000,
		Rule: "plain fragment (plain/anonymous variables, each named variable once, nothing pre-bound) x set-like messages; the set of returned bindings must equal the reference embeddings; non-trivial = >= 1 embedding with a variable, or >= 2 embeddings"},
		genPlain, checkPlain)
}

func FuzzC01Sound(f *testing.F) {
	ev.Fuzz(f, ev.Opts{Property: "C01", Name: "sound"}, genSound, checkSound)
}

func FuzzC02Planted(f *testing.F) {
	ev.Fuzz(f, ev.Opts{Property: "C02", Name: "planted"}, genPlanted, checkPlanted)
}
