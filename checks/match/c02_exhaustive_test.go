package matchcheck

import (
	"fmt"
	"testing"

	"github.com/Comcast/sheens/match"
	"verif/lib/ev"
	"verif/lib/jsongen"
	"verif/lib/refmatch"
)

// Small-scope enumeration: every pattern and every message over the
// alphabet {a,b}, keys {a,b}, variables {?x,?y}, depth <= 2, width <= 2.

func enumValues(d int, leaves []interface{}, vars []string) []interface{} {
	// level 0: the leaves
	cur := append([]interface{}{}, leaves...)
	keys := []string{"a", "b"}
	isVar := func(x interface{}) bool {
		s, ok := x.(string)
		return ok && refmatch.IsVar(s)
	}
	for lvl := 1; lvl <= d; lvl++ {
		prev := cur
		next := append([]interface{}{}, leaves...)
		// objects over key subsets
		next = append(next, map[string]interface{}{})
		for _, k := range keys {
			for _, v := range prev {
				next = append(next, map[string]interface{}{k: v})
			}
		}
		for _, v1 := range prev {
			for _, v2 := range prev {
				next = append(next, map[string]interface{}{"a": v1, "b": v2})
			}
		}
		// property variables
		for _, pv := range vars {
			for _, v := range prev {
				next = append(next, map[string]interface{}{pv: v})
			}
		}
		// arrays (ordered, width <= 2, no duplicate scalars, at most one
		// direct variable)
		next = append(next, []interface{}{})
		for _, v := range prev {
			next = append(next, []interface{}{v})
		}
		for _, v1 := range prev {
			for _, v2 := range prev {
				if isVar(v1) && isVar(v2) {
					continue
				}
				if jsongen.IsScalar(v1) && jsongen.IsScalar(v2) && jsongen.Canon(v1) == jsongen.Canon(v2) {
					continue
				}
				next = append(next, []interface{}{v1, v2})
			}
		}
		cur = next
	}
	return cur
}

func TestC02Exhaustive(t *testing.T) {
	if ev.Replaying() {
		if _, ok := ev.ReplayFor("C02", "exhaustive"); !ok {
			t.Skip()
		}
	}
	r := ev.NewRec(ev.Opts{Property: "C02", Name: "exhaustive",
		Rule: "all patterns x all messages over alphabet {a,b}, keys {a,b}, variables {?x,?y}, depth<=2, width<=2 (quick: a seed-selected slice of the patterns, all messages); result set must equal the reference embeddings (repeated variables meeting structured values: soundness only); non-trivial = >= 1 embedding and the pattern has a variable"})
	defer r.Finish(t)
	if raw, ok := ev.ReplayFor("C02", "exhaustive"); ok {
		var c PlainCase
		if err := jsonUnmarshal(raw, &c); err != nil {
			t.Fatal(err)
		}
		v := checkSmall(c.Pattern, c.Message)
		if !r.Eval(c, v) {
			t.Errorf("replay: %s", v.Err)
		}
		return
	}
	msgs := enumValues(2, []interface{}{"a", "b"}, nil)
	pats := enumValues(2, []interface{}{"a", "b", "?x", "?y"}, []string{"?x", "?y"})
	stride := 1
	if ev.Tier() != "thorough" {
		stride = 4
	} else {
		r.SetExhaustive()
	}
	off := ev.Seed() % stride
	ns, sh := ev.NShards(), ev.Shard()
	r.Note("patterns", len(pats))
	r.Note("messages", len(msgs))
	n := 0
	for i, p := range pats {
		if i%stride != off {
			continue
		}
		n++
		if n%ns != sh {
			continue
		}
		r.Requested(len(msgs))
		for j, m := range msgs {
			v := checkSmall(p, m)
			if !r.Tally(fmt.Sprintf("%d/%d", i, j), v, func() interface{} { return PlainCase{Pattern: p, Message: m, Kind: "enumerated"} }) {
				t.Errorf("pattern %s message %s: %s", jsongen.Canon(p), jsongen.Canon(m), v.Err)
				return
			}
		}
	}
}

func checkSmall(p, m interface{}) (v ev.Verdict) {
	res, err := match.Match(jsongen.Copy(p), jsongen.Copy(m), match.Bindings{})
	if err != nil {
		v.Failf("Match returned an error: %v", err)
		return
	}
	want, ambiguous := refmatch.Embeddings(p, m)
	if ambiguous {
		v.Class("repeated-structured(soundness only)")
		for i, r := range res {
			if !refmatch.Contained(p, m, map[string]interface{}(r), nil) {
				v.Failf("result %d %s is not contained", i, jsongen.Canon(map[string]interface{}(r)))
				return
			}
		}
		return
	}
	got := resultSet(res)
	if fmt.Sprint(got) != fmt.Sprint(want) {
		v.Failf("returned sets %v differ from the embeddings %v", got, want)
		return
	}
	if len(want) > 0 && len(refmatch.Vars(p, nil)) > 0 {
		v.NonTrivial = true
		v.Class(fmt.Sprintf("embeddings:%d", min(len(want), 4)))
	}
	return
}
