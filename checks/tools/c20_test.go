package toolscheck

import (
	"bytes"
	"context"
	"fmt"
	"regexp"
	"sort"
	"strings"
	"testing"

	"github.com/Comcast/sheens/core"
	"github.com/Comcast/sheens/interpreters"
	"github.com/Comcast/sheens/match"
	"github.com/Comcast/sheens/tools"
	"pgregory.net/rapid"
	"verif/lib/ev"
	"verif/lib/jsongen"
)

// ---------------------------------------------------------------- C20

type GBranch struct {
	Target  string      `json:"target"`
	Pattern interface{} `json:"pattern,omitempty"`
	Guard   string      `json:"guard,omitempty"` // "", "source", "native"
	GInterp string      `json:"ginterp,omitempty"`
}

type GNode struct {
	Name     string    `json:"name"`
	Action   string    `json:"action,omitempty"` // "", "source", "native"
	Interp   string    `json:"interp,omitempty"`
	Doc      string    `json:"doc,omitempty"`
	NoBranch bool      `json:"noBranch,omitempty"`
	Type     string    `json:"type,omitempty"`
	Branches []GBranch `json:"branches,omitempty"`
}

type GraphCase struct {
	Nodes []GNode `json:"nodes"`
	// From, To: the optional transition that Dot highlights (colours
	// only: the graph drawn has to stay the same)
	From string `json:"from,omitempty"`
	To   string `json:"to,omitempty"`
}

var nodeNames = []string{"start", "n1", "n2", "a_b", "n-1", "n.2", "my node", `q"x`, "né", "error", "Ünï", "x'y", "a&b", "<n>", "@t", "@done", "100%done", "at%sign", "level%%"}
var interpNames = []string{"ecmascript", "", "ecmascript-ext", "goja", "noop"}
var graphPatterns = []interface{}{
	nil, map[string]interface{}{"a": "?x"}, "?m", map[string]interface{}{"t": "<b>&amp; \"q\" 'r'"},
	[]interface{}{1.0, "two"}, map[string]interface{}{"long": "a pattern that is certainly longer than forty characters in JSON", "n": []interface{}{1.0, 2.0, 3.0}},
	true, 3.5,
}

func genGraph(t *rapid.T) GraphCase {
	n := rapid.IntRange(1, 6).Draw(t, "n")
	names := rapid.Permutation(nodeNames).Draw(t, "names")[:n]
	c := GraphCase{}
	for i, name := range names {
		l := fmt.Sprintf("n%d", i)
		g := GNode{Name: name}
		g.Action = rapid.SampledFrom([]string{"", "", "source", "native"}).Draw(t, l+".act")
		if g.Action == "source" {
			g.Interp = rapid.SampledFrom(interpNames).Draw(t, l+".int")
		}
		if rapid.IntRange(0, 3).Draw(t, l+".doc") == 0 {
			g.Doc = rapid.SampledFrom([]string{"Short doc.", "A longer documentation string. It has two sentences and is over forty characters.", "<b>html</b> & stuff"}).Draw(t, l+".docv")
		}
		switch rapid.IntRange(0, 5).Draw(t, l+".bk") {
		case 0:
			g.NoBranch = true
		default:
			g.Type = rapid.SampledFrom([]string{"message", "bindings", ""}).Draw(t, l+".type")
			if g.Action != "" && g.Type == "message" {
				g.Type = "bindings"
			}
			for j := rapid.IntRange(0, 4).Draw(t, l+".nb"); j > 0; j-- {
				bl := fmt.Sprintf("%s.b%d", l, j)
				b := GBranch{}
				switch k := rapid.IntRange(0, 9).Draw(t, bl+".tk"); {
				case k <= 5:
					b.Target = rapid.SampledFrom(names).Draw(t, bl+".to")
				case k == 6:
					b.Target = rapid.SampledFrom([]string{"nowhere", "gone", "also missing"}).Draw(t, bl+".miss")
				case k == 7:
					b.Target = rapid.SampledFrom([]string{"@t", "@next"}).Draw(t, bl+".var")
				case k == 8:
					b.Target = ""
				default:
					b.Target = name
				}
				b.Pattern = jsongen.Copy(rapid.SampledFrom(graphPatterns).Draw(t, bl+".pat"))
				b.Guard = rapid.SampledFrom([]string{"", "", "source", "native"}).Draw(t, bl+".g")
				if b.Guard == "source" {
					b.GInterp = rapid.SampledFrom(interpNames).Draw(t, bl+".gi")
				}
				g.Branches = append(g.Branches, b)
			}
		}
		c.Nodes = append(c.Nodes, g)
	}
	if rapid.Bool().Draw(t, "highlight") {
		pool := append(append([]string{}, names...), "", "nowhere", "start")
		c.From = rapid.SampledFrom(pool).Draw(t, "from")
		c.To = rapid.SampledFrom(pool).Draw(t, "to")
	}
	return c
}

func nativeAction() core.Action {
	return &core.FuncAction{F: func(ctx context.Context, bs match.Bindings, props core.StepProps) (*core.Execution, error) {
		return core.NewExecution(bs), nil
	}}
}

func (c GraphCase) build() *core.Spec {
	s := &core.Spec{Name: "graph", Nodes: map[string]*core.Node{}}
	for _, g := range c.Nodes {
		n := &core.Node{Doc: g.Doc}
		switch g.Action {
		case "source":
			n.ActionSource = &core.ActionSource{Interpreter: g.Interp, Source: "return _.bindings; // a < b > c"}
		case "native":
			n.Action = nativeAction()
		}
		if !g.NoBranch {
			n.Branches = &core.Branches{Type: g.Type}
			for _, gb := range g.Branches {
				b := &core.Branch{Target: gb.Target, Pattern: jsongen.Copy(gb.Pattern)}
				switch gb.Guard {
				case "source":
					b.GuardSource = &core.ActionSource{Interpreter: gb.GInterp, Source: "return _.bindings;"}
				case "native":
					b.Guard = nativeAction()
				}
				n.Branches.Branches = append(n.Branches.Branches, b)
			}
		}
		s.Nodes[g.Name] = n
	}
	return s
}

type wc struct{ bytes.Buffer }

func (w *wc) Close() error { return nil }

func setOf(xs []string) string {
	m := map[string]bool{}
	for _, x := range xs {
		m[x] = true
	}
	out := make([]string, 0, len(m))
	for x := range m {
		out = append(out, x)
	}
	sort.Strings(out)
	return fmt.Sprintf("%q", out)
}

var (
	dotNode     = regexp.MustCompile(`(?m)^  (.*) \[shape="[a-z]+", style="`)
	dotEdge     = regexp.MustCompile(`(?m)^  (.*) -> (.*) \[ color="`)
	mermaidNode = regexp.MustCompile(`(?m)^  (n\d+)[\(\[]"(.*)"[\)\]]$`)
	mermaidEdge = regexp.MustCompile(`(?ms)^  (n\d+) (?:-- "<pre>.*?</pre>")? --> (n\d+)$`)
)

func checkGraph(c GraphCase) (v ev.Verdict) {
	spec := c.build()
	if err := spec.Compile(context.Background(), interpreters.Standard(), true); err != nil {
		v.Failf("spec does not compile: %v", err)
		return
	}
	// ---- reference analysis from the graph
	var terminal, orphans, empty, missing, vars, interps []string
	targeted := map[string]bool{}
	branches, actions, guards := 0, 0, 0
	type edge struct{ from, to string }
	wantEdges := map[edge]int{}
	for name, n := range spec.Nodes {
		if n.Action != nil || n.ActionSource != nil {
			actions++
		}
		if n.ActionSource != nil {
			interps = append(interps, n.ActionSource.Interpreter)
		}
		if n.Branches == nil || len(n.Branches.Branches) == 0 {
			terminal = append(terminal, name)
			continue
		}
		for _, b := range n.Branches.Branches {
			branches++
			targeted[b.Target] = true
			wantEdges[edge{name, b.Target}]++
			if b.Target == "" {
				empty = append(empty, name)
			}
			if strings.HasPrefix(b.Target, "@") {
				vars = append(vars, b.Target)
			} else if _, have := spec.Nodes[b.Target]; !have {
				missing = append(missing, b.Target)
			}
			if b.Guard != nil || b.GuardSource != nil {
				guards++
			}
			if b.GuardSource != nil {
				interps = append(interps, b.GuardSource.Interpreter)
			}
		}
	}
	for name := range spec.Nodes {
		if !targeted[name] {
			orphans = append(orphans, name)
		}
	}
	var a *tools.SpecAnalysis
	var aerr error
	if p := trapPanic(func() { a, aerr = tools.Analyze(spec) }); p != "" || aerr != nil || a == nil {
		v.Failf("Analyze failed: %v %s", aerr, p)
		return
	}
	cmp := func(what string, got []string, want []string) bool {
		if setOf(got) != setOf(want) {
			v.Failf("analysis: %s reported as %s, the spec graph has %s", what, setOf(got), setOf(want))
			return false
		}
		return true
	}
	if len(interps) == 0 {
		interps = []string{"default"}
	}
	if a.NodeCount != len(spec.Nodes) || a.Branches != branches || a.Actions != actions || a.Guards != guards {
		v.Failf("analysis counts (nodes %d, branches %d, actions %d, guards %d) differ from the graph's (%d, %d, %d, %d)",
			a.NodeCount, a.Branches, a.Actions, a.Guards, len(spec.Nodes), branches, actions, guards)
		return
	}
	if !cmp("terminal nodes", a.TerminalNodes, terminal) || !cmp("orphans", a.Orphans, orphans) || !cmp("nodes with empty targets", a.EmptyTargets, empty) ||
		!cmp("missing targets", a.MissingTargets, missing) || !cmp("branch target variables", a.BranchTargetVariables, vars) || !cmp("interpreters", a.Interpreters, interps) {
		return
	}
	// ---- renderings
	parseable := true
	for name := range spec.Nodes {
		if strings.Contains(name, " -> ") || strings.Contains(name, " [") {
			parseable = false
		}
	}
	var dot wc
	var derr error
	if c.From != "" || c.To != "" {
		v.Class("dot-highlighted-transition")
	}
	if p := trapPanic(func() { derr = tools.Dot(spec, &dot, c.From, c.To) }); p != "" {
		v.Failf("Dot panicked: %s", p)
		return
	}
	if derr != nil {
		v.Failf("Dot failed on a compilable spec: %v", derr)
		return
	}
	if parseable {
		text := dot.String()
		seenNodes := map[string]int{}
		for _, m := range dotNode.FindAllStringSubmatch(text, -1) {
			seenNodes[m[1]]++
		}
		for name := range spec.Nodes {
			if seenNodes[name] != 1 {
				v.Failf("Dot: node %q appears %d times as a node", name, seenNodes[name])
				return
			}
		}
		for name := range seenNodes {
			if _, have := spec.Nodes[name]; !have && !targeted[name] {
				v.Failf("Dot: extra node %q that is neither a spec node nor a branch target", name)
				return
			}
		}
		gotEdges := map[edge]int{}
		for _, m := range dotEdge.FindAllStringSubmatch(text, -1) {
			gotEdges[edge{m[1], m[2]}]++
		}
		for e, n := range wantEdges {
			if gotEdges[e] != n {
				v.Failf("Dot: the spec has %d branch(es) %q -> %q, the rendering has %d edge(s)", n, e.from, e.to, gotEdges[e])
				return
			}
		}
		for e, n := range gotEdges {
			if wantEdges[e] != n {
				v.Failf("Dot: %d edge(s) %q -> %q in the rendering, %d such branch(es) in the spec", n, e.from, e.to, wantEdges[e])
				return
			}
		}
	}
	var mm wc
	var merr error
	if p := trapPanic(func() { merr = tools.Mermaid(spec, &mm, nil, "", "") }); p != "" {
		v.Failf("Mermaid panicked: %s", p)
		return
	}
	if merr != nil {
		v.Failf("Mermaid failed on a compilable spec: %v", merr)
		return
	}
	{
		text := mm.String()
		ids := map[string]string{}
		seen := map[string]int{}
		for _, m := range mermaidNode.FindAllStringSubmatch(text, -1) {
			ids[m[1]] = m[2]
			seen[m[2]]++
		}
		for name := range spec.Nodes {
			if seen[name] != 1 {
				v.Failf("Mermaid: node %q appears %d times as a node", name, seen[name])
				return
			}
		}
		for name := range seen {
			if _, have := spec.Nodes[name]; !have && !targeted[name] {
				v.Failf("Mermaid: extra node %q", name)
				return
			}
		}
		gotEdges := map[edge]int{}
		for _, m := range mermaidEdge.FindAllStringSubmatch(text, -1) {
			gotEdges[edge{ids[m[1]], ids[m[2]]}]++
		}
		for e, n := range wantEdges {
			if gotEdges[e] != n {
				v.Failf("Mermaid: the spec has %d branch(es) %q -> %q, the rendering has %d edge(s)", n, e.from, e.to, gotEdges[e])
				return
			}
		}
		for e, n := range gotEdges {
			if wantEdges[e] != n {
				v.Failf("Mermaid: %d edge(s) %q -> %q in the rendering, %d such branch(es) in the spec", n, e.from, e.to, wantEdges[e])
				return
			}
		}
	}
	// the HTML rendering is total as well, and lists every node once
	var html wc
	var herr error
	if p := trapPanic(func() { herr = tools.RenderSpecPage(spec, &html, nil, true) }); p != "" {
		v.Failf("RenderSpecPage panicked: %s", p)
		return
	}
	if herr != nil {
		v.Failf("RenderSpecPage failed on a compilable spec: %v", herr)
		return
	}
	for name := range spec.Nodes {
		if n := strings.Count(html.String(), fmt.Sprintf(`class="nodeName">%s</span>`, name)); n != 1 {
			v.Failf("HTML: node %q is listed %d times", name, n)
			return
		}
	}
	feats := 0
	for _, f := range [][]string{missing, vars, orphans} {
		if len(f) > 0 {
			feats++
		}
	}
	native := false
	for _, g := range c.Nodes {
		if g.Action == "native" {
			native = true
			v.Class("native-action")
		}
	}
	if len(missing) > 0 {
		v.Class("missing-target")
	}
	if len(vars) > 0 {
		v.Class("variable-target")
	}
	if guards > 0 {
		v.Class("guards")
	}
	v.NonTrivial = len(c.Nodes) >= 3 && (feats > 0 || native || guards > 0)
	return
}

func TestC20Graph(t *testing.T) {
	ev.Run(t, ev.Opts{Property: "C20", Name: "graph", Quick: 6000, Thorough: 300000,
		Rule: "graph-shaped specs: 1-6 nodes (names with hyphens, dots, spaces, quotes, non-ASCII), branches to existing, missing, variable and empty targets, native and source actions and guards, several interpreters, empty branch lists, patterns of any JSON shape; reference analysis computed from the graph must equal tools.Analyze (as sets/counts); Dot and Mermaid output parsed back: one node per spec node, one edge per branch, placeholders only for missing/variable targets; non-trivial = >= 3 nodes and a missing/variable target, an orphan, a native action or a guard"},
		genGraph, checkGraph)
}

func FuzzC20Graph(f *testing.F) {
	ev.Fuzz(f, ev.Opts{Property: "C20", Name: "graph"}, genGraph, checkGraph)
}
