package toolscheck

import (
	"context"
	"encoding/json"
	"fmt"
	"os"
	"os/exec"
	"regexp"
	"strconv"
	"strings"
	"syscall"
	"testing"
	"time"

	"github.com/Comcast/sheens/core"
	"github.com/Comcast/sheens/match"
	"github.com/Comcast/sheens/tools/expect"
	"pgregory.net/rapid"
	"verif/lib/ev"
	"verif/lib/jsongen"
	"verif/lib/sm"
)

// ---------------------------------------------------------------- C19

type ExpOutput struct {
	Pattern  interface{} `json:"pattern"`
	Guard    *sm.Prog    `json:"guard,omitempty"`
	Inverted bool        `json:"inverted,omitempty"`
}

type ExpStep struct {
	Lines   []string    `json:"lines"` // what the subprocess will print (it echoes its input)
	Outputs []ExpOutput `json:"outputs"`
	// Late: the step's input is sent only after 1.2 s (IO.WaitBefore) -
	// after the session's default timeout (150 ms), so what it expects
	// "never arrives before the timeout" unless the step has a timeout of
	// its own.  OwnTimeout: the step sets IO.Timeout (3 s).
	Late       bool `json:"late,omitempty"`
	OwnTimeout bool `json:"ownTimeout,omitempty"`
}

// (ExpCase.Again: when the tool passes the session, run the same Session
// value once more against a stream of noise.)
type ExpCase struct {
	Again bool      `json:"again,omitempty"`
	Steps []ExpStep `json:"steps"`
}

var letters = []string{"A", "B", "C", "D"}

func genExpOutput(t *rapid.T, label string, inverted bool) ExpOutput {
	o := ExpOutput{Inverted: inverted}
	l := rapid.SampledFrom(letters).Draw(t, label+".l")
	switch rapid.IntRange(0, 3).Draw(t, label+".shape") {
	case 0, 1:
		o.Pattern = map[string]interface{}{"k": l}
	default:
		o.Pattern = map[string]interface{}{"k": l, "n": "?n"}
		switch rapid.IntRange(0, 4).Draw(t, label+".g") {
		case 0, 1:
			o.Guard = &sm.Prog{Ops: []sm.Op{{Op: "acceptIf", K: "?n", Rel: rapid.SampledFrom([]string{"<", ">"}).Draw(t, label+".rel"), V: float64(rapid.IntRange(1, 4).Draw(t, label+".c"))}}}
		case 2:
			o.Guard = &sm.Prog{Ops: []sm.Op{{Op: "returnNull"}}}
		}
	}
	return o
}

func lineFor(t *rapid.T, o ExpOutput, label string) string {
	m := jsongen.CopyMap(o.Pattern.(map[string]interface{}))
	if _, has := m["n"]; has {
		m["n"] = float64(rapid.IntRange(0, 5).Draw(t, label+".n"))
	} else if rapid.Bool().Draw(t, label+".extra") {
		m["n"] = float64(rapid.IntRange(0, 5).Draw(t, label+".n"))
	}
	long := 7
	if o.Inverted {
		long = 1 // a forbidden message that is also a long line
	}
	if rapid.IntRange(0, long).Draw(t, label+".long") == 0 {
		// a long line: longer than the buffers line readers start with
		// (4096 bytes, 64 KiB); kept as a marker in the case
		m["pad"] = fmt.Sprintf("@@PAD:%d@@", rapid.SampledFrom([]int{4100, 9000, 20000}).Draw(t, label+".pad"))
	}
	js, _ := json.Marshal(m)
	return string(js)
}

var padMarker = regexp.MustCompile(`@@PAD:(\d+)@@`)

// expanded returns the case with the pad markers of its lines replaced
// by that many characters.
//
// The total is kept under 40000 bytes: the tool stops reading the
// subprocess' output once the last step is satisfied and then waits for
// the subprocess to exit, so more unread output than a pipe holds (64 KiB)
// blocks `cat` - and the tool - for ever.  That is a limitation of the tool
// which C19 does not speak about (a session that hangs has not passed).
func (c ExpCase) expanded() ExpCase {
	out := ExpCase{Again: c.Again}
	budget := 40000
	for _, st := range c.Steps {
		ns := ExpStep{Outputs: st.Outputs, Late: st.Late, OwnTimeout: st.OwnTimeout}
		for _, l := range st.Lines {
			ns.Lines = append(ns.Lines, padMarker.ReplaceAllStringFunc(l, func(m string) string {
				n, _ := strconv.Atoi(padMarker.FindStringSubmatch(m)[1])
				if n > budget {
					return "x"
				}
				budget -= n
				return strings.Repeat("x", n)
			}))
		}
		out.Steps = append(out.Steps, ns)
	}
	return out
}

func genExp(t *rapid.T) ExpCase {
	c := ExpCase{}
	if rapid.IntRange(0, 9).Draw(t, "scenario") == 0 {
		// built, not hoped for: a forbidden message (sometimes a long
		// line) arrives before the messages that satisfy the step
		st := ExpStep{}
		good := genExpOutput(t, "sc.good", false)
		good.Guard = nil
		bad := genExpOutput(t, "sc.bad", true)
		bad.Guard = nil
		st.Outputs = []ExpOutput{good, bad}
		if rapid.Bool().Draw(t, "sc.second") {
			g2 := genExpOutput(t, "sc.good2", false)
			g2.Guard = nil
			st.Outputs = append(st.Outputs, g2)
		}
		for i := rapid.IntRange(0, 2).Draw(t, "sc.noise"); i > 0; i-- {
			st.Lines = append(st.Lines, rapid.SampledFrom([]string{"not json", "{broken", "42"}).Draw(t, fmt.Sprintf("sc.n%d", i)))
		}
		st.Lines = append(st.Lines, lineFor(t, bad, "sc.badline"))
		for i, o := range st.Outputs {
			if !o.Inverted {
				st.Lines = append(st.Lines, lineFor(t, o, fmt.Sprintf("sc.l%d", i)))
			}
		}
		c.Steps = append(c.Steps, st)
		return c
	}
	if rapid.IntRange(0, 11).Draw(t, "scenario3") == 5 {
		// built: a step with a timeout of its own, in time; then a step
		// without one whose expected message arrives only after the
		// session's default timeout (sometimes a step in between)
		mk := func(label string) ExpStep {
			o := genExpOutput(t, label, false)
			o.Guard = nil
			return ExpStep{Outputs: []ExpOutput{o}, Lines: []string{lineFor(t, o, label+".line")}}
		}
		first := mk("sc3.first")
		first.OwnTimeout = true
		c.Steps = append(c.Steps, first)
		if rapid.Bool().Draw(t, "sc3.between") {
			c.Steps = append(c.Steps, mk("sc3.between"))
		}
		late := mk("sc3.late")
		late.Late = true
		late.OwnTimeout = rapid.IntRange(0, 3).Draw(t, "sc3.own") == 0
		c.Steps = append(c.Steps, late)
		return c
	}
	if rapid.IntRange(0, 9).Draw(t, "scenario2") == 0 {
		// built as well: the pieces of an expected message arrive in two
		// different messages (the number with another letter, then the
		// letter alone); no message matches
		l := rapid.SampledFrom(letters).Draw(t, "sc2.l")
		other := rapid.SampledFrom([]string{"X", "Y"}).Draw(t, "sc2.o")
		st := ExpStep{Outputs: []ExpOutput{{Pattern: map[string]interface{}{"k": l, "n": "?n"}}}}
		if rapid.Bool().Draw(t, "sc2.guard") {
			st.Outputs[0].Guard = &sm.Prog{Ops: []sm.Op{{Op: "acceptIf", K: "?n", Rel: ">", V: 0.0}}}
		}
		js1, _ := json.Marshal(map[string]interface{}{"k": other, "n": float64(rapid.IntRange(1, 5).Draw(t, "sc2.n"))})
		js2, _ := json.Marshal(map[string]interface{}{"k": l})
		st.Lines = []string{string(js1), "not json", string(js2)}
		c.Steps = append(c.Steps, st)
		return c
	}
	ns := rapid.IntRange(1, 3).Draw(t, "steps")
	// all expectations first, so that a step's lines can also serve a
	// later step (left-overs in the stream)
	for si := 0; si < ns; si++ {
		st := ExpStep{}
		l := fmt.Sprintf("s%d", si)
		no := rapid.IntRange(1, 4).Draw(t, l+".no")
		for oi := 0; oi < no; oi++ {
			inv := oi > 0 && rapid.IntRange(0, 4).Draw(t, fmt.Sprintf("%s.inv%d", l, oi)) == 0
			if oi == 0 && no == 1 && rapid.IntRange(0, 9).Draw(t, l+".onlyinv") == 0 {
				inv = true // a step that expects nothing and forbids something
			}
			st.Outputs = append(st.Outputs, genExpOutput(t, fmt.Sprintf("%s.o%d", l, oi), inv))
		}
		c.Steps = append(c.Steps, st)
	}
	for si := range c.Steps {
		st := &c.Steps[si]
		l := fmt.Sprintf("s%d", si)
		// the stream: instances of the expected outputs (possibly not of
		// all of them, possibly of a later step's), duplicates, near
		// misses, noise; a later step may be quiet (no lines at all)
		nl := rapid.IntRange(0, 6).Draw(t, l+".nl")
		if si > 0 && rapid.IntRange(0, 2).Draw(t, l+".quiet") == 0 {
			nl = 0
		}
		for li := 0; li < nl; li++ {
			ll := fmt.Sprintf("%s.l%d", l, li)
			switch k := rapid.IntRange(0, 10).Draw(t, ll+".k"); {
			case k <= 5:
				o := st.Outputs[rapid.IntRange(0, len(st.Outputs)-1).Draw(t, ll+".oi")]
				if o.Inverted && rapid.IntRange(0, 2).Draw(t, ll+".skipinv") > 0 {
					o = st.Outputs[0]
				}
				if li == 0 && rapid.IntRange(0, 2).Draw(t, ll+".invfirst") == 0 {
					// a forbidden message right at the start of the step
					for _, cand := range st.Outputs {
						if cand.Inverted {
							o = cand
							break
						}
					}
				}
				st.Lines = append(st.Lines, lineFor(t, o, ll))
			case k == 6 && len(st.Lines) > 0:
				st.Lines = append(st.Lines, st.Lines[rapid.IntRange(0, len(st.Lines)-1).Draw(t, ll+".dup")])
			case k <= 7:
				near := map[string]interface{}{"k": rapid.SampledFrom([]string{"A", "B", "C", "D", "E"}).Draw(t, ll+".nm"), "n": float64(rapid.IntRange(0, 5).Draw(t, ll+".nn"))}
				if rapid.IntRange(0, 2).Draw(t, ll+".half") == 0 {
					// half a message: the letter of an expected output
					// without the number its pattern asks for, or the
					// number alone - no single message matches, even if
					// the pieces taken together would
					o := st.Outputs[rapid.IntRange(0, len(st.Outputs)-1).Draw(t, ll+".halfo")]
					if pm, ok := o.Pattern.(map[string]interface{}); ok && rapid.Bool().Draw(t, ll+".halfk") {
						near = map[string]interface{}{"k": pm["k"]}
					} else {
						delete(near, "k")
					}
				}
				js, _ := json.Marshal(near)
				st.Lines = append(st.Lines, string(js))
			case k == 8 && si+1 < len(c.Steps):
				later := c.Steps[rapid.IntRange(si+1, len(c.Steps)-1).Draw(t, ll+".later")]
				o := later.Outputs[0]
				st.Lines = append(st.Lines, lineFor(t, o, ll))
			default:
				if len(st.Outputs) > 0 && rapid.IntRange(0, 3).Draw(t, ll+".prefixed") == 2 {
					// noise that begins with a message one of the outputs
					// speaks of: not a JSON line, so not a message
					o := st.Outputs[rapid.IntRange(0, len(st.Outputs)-1).Draw(t, ll+".pfo")]
					st.Lines = append(st.Lines, lineFor(t, o, ll+".pf")+rapid.SampledFrom([]string{" <- not emitted, just logged", "]", `{"k":"Z"}`, " trailing"}).Draw(t, ll+".pft"))
				} else {
					st.Lines = append(st.Lines, rapid.SampledFrom([]string{"not json", "{broken", "42", "\"str\"", "[1,2]", "null"}).Draw(t, ll+".noise"))
				}
			}
		}
	}
	c.Again = rapid.Bool().Draw(t, "again")
	// a quiet step can only be satisfied by what earlier steps left in
	// the stream: often provide exactly that, at the end of the previous
	// step's lines
	for si := 1; si < len(c.Steps); si++ {
		if len(c.Steps[si].Lines) == 0 && rapid.IntRange(0, 3).Draw(t, fmt.Sprintf("feed%d", si)) > 0 {
			for oi, o := range c.Steps[si].Outputs {
				if !o.Inverted {
					c.Steps[si-1].Lines = append(c.Steps[si-1].Lines, lineFor(t, o, fmt.Sprintf("feed%d.%d", si, oi)))
				}
			}
		}
	}
	return c
}

// modelVerdict: does the session pass according to the documented
// meaning of a session?  Lines become available step by step (the
// subprocess prints a step's lines when that step's inputs are written).
func modelVerdict(c ExpCase) (pass bool, why string, features []string) {
	pos := 0
	var stream []string
	for si, st := range c.Steps {
		// lines that are sent after the step's timeout are not there for
		// it (they are for whatever step comes later)
		late := st.Late && !st.OwnTimeout
		if !late {
			stream = append(stream, st.Lines...)
		} else {
			features = append(features, "input-after-the-timeout")
		}
		satisfied := make([]bool, len(st.Outputs))
		need := 0
		for _, o := range st.Outputs {
			if !o.Inverted {
				need++
			}
		}
		// a step that only forbids outputs still looks at the stream: at
		// least at the first message that arrives (the tool returns after
		// the first JSON line once nothing more is needed)
		onlyForbids := need == 0 && len(st.Outputs) > 0
		done := need == 0 && !onlyForbids
		for pos < len(stream) && !done {
			line := stream[pos]
			pos++
			var msg interface{}
			if json.Unmarshal([]byte(line), &msg) != nil {
				continue
			}
			for oi, o := range st.Outputs {
				if satisfied[oi] {
					continue
				}
				bss, err := match.Match(jsongen.Copy(o.Pattern), msg, match.NewBindings())
				if err != nil || len(bss) == 0 {
					continue
				}
				if o.Guard != nil {
					g := o.Guard.Run(map[string]interface{}(bss[0]))
					if g.Kind == "fail" {
						return false, fmt.Sprintf("step %d: guard fails", si), features
					}
					if g.Kind != "ok" {
						features = append(features, "guard-rejected")
						continue
					}
				}
				if o.Inverted {
					features = append(features, "inverted-hit")
					return false, fmt.Sprintf("step %d: forbidden output %d matched by %s", si, oi, line), features
				}
				satisfied[oi] = true
				need--
			}
			if need == 0 {
				done = true
			}
		}
		if late {
			stream = append(stream, st.Lines...)
		}
		if !done && onlyForbids {
			// no message arrived at all: nothing forbidden was seen
			continue
		}
		if !done {
			features = append(features, "expectation-never-satisfied")
			return false, fmt.Sprintf("step %d: %d expected output(s) never matched by the lines available", si, need), features
		}
	}
	return true, "", features
}

func reap() {
	for {
		var ws syscall.WaitStatus
		pid, err := syscall.Wait4(-1, &ws, syscall.WNOHANG, nil)
		if pid <= 0 || err != nil {
			return
		}
	}
}

func checkExp(c ExpCase) (v ev.Verdict) {
	for _, st := range c.Steps {
		for _, l := range st.Lines {
			if strings.Contains(l, "@@PAD:") {
				v.Class("long-line")
			}
		}
	}
	c = c.expanded()
	s := &expect.Session{Interpreters: sm.Interpreters(), DefaultTimeout: 150 * time.Millisecond}
	for _, st := range c.Steps {
		iop := expect.IO{}
		if st.Late {
			iop.WaitBefore = 1200 * time.Millisecond
		}
		if st.OwnTimeout {
			iop.Timeout = 3 * time.Second
		}
		for _, l := range st.Lines {
			iop.Inputs = append(iop.Inputs, l)
		}
		for _, o := range st.Outputs {
			out := expect.Output{Pattern: jsongen.Copy(o.Pattern), Inverted: o.Inverted}
			if o.Guard != nil {
				out.GuardSource = &core.ActionSource{Interpreter: "ecmascript", Source: o.Guard.ES()}
			}
			iop.OutputSet = append(iop.OutputSet, out)
		}
		s.IOs = append(s.IOs, iop)
	}
	ctx, cancel := context.WithTimeout(context.Background(), 10*time.Second)
	defer cancel()
	var err error
	var p string
	ran := make(chan struct{})
	go func() {
		defer close(ran)
		p = trapPanic(func() { err = s.Run(ctx, "", "cat") })
	}()
	select {
	case <-ran:
	case <-time.After(30 * time.Second):
		// the tool waits for a subprocess that cannot exit (see
		// expanded); not a verdict: free it and move on
		exec.Command("pkill", "-P", strconv.Itoa(os.Getpid()), "cat").Run()
		<-ran
		reap()
		v.Skip, v.SkipReason = true, "tool-waits-for-blocked-subprocess"
		return
	}
	if p != "" {
		v.Failf("Session.Run panicked: %s", p)
		return
	}
	if err != nil {
		reap()
	}
	pass, why, feats := modelVerdict(c)
	for _, f := range feats {
		v.Class(f)
	}
	if err == nil {
		v.Class("tool:pass")
	} else {
		v.Class("tool:fail")
	}
	if err == nil && !pass {
		v.Failf("the tool passed the session, but %s", why)
		return
	}
	if err == nil && c.Again {
		// The same Session value run a second time, now against a stream
		// that holds nothing any output expects: whatever the first run left in
		// the session, the second run may pass only if its own stream
		// satisfies it.
		again := ExpCase{}
		for i := range s.IOs {
			s.IOs[i].Inputs = []interface{}{"not json", `{"k":"nothing expects this"}`}
			again.Steps = append(again.Steps, ExpStep{Outputs: c.Steps[i].Outputs, Lines: []string{"not json", `{"k":"nothing expects this"}`}})
		}
		ctx2, cancel2 := context.WithTimeout(context.Background(), 10*time.Second)
		defer cancel2()
		var err2 error
		ran2 := make(chan struct{})
		go func() {
			defer close(ran2)
			p = trapPanic(func() { err2 = s.Run(ctx2, "", "cat") })
		}()
		select {
		case <-ran2:
		case <-time.After(30 * time.Second):
			exec.Command("pkill", "-P", strconv.Itoa(os.Getpid()), "cat").Run()
			<-ran2
			reap()
			v.Skip, v.SkipReason = true, "tool-waits-for-blocked-subprocess"
			return
		}
		if p != "" {
			v.Failf("the second Session.Run panicked: %s", p)
			return
		}
		if err2 != nil {
			reap()
		}
		v.Class("run-again")
		if pass2, why2, _ := modelVerdict(again); err2 == nil && !pass2 {
			v.Failf("the same session run a second time against a stream of noise passed, but %s", why2)
			return
		}
	}
	multi := false
	for _, st := range c.Steps {
		n := 0
		for _, o := range st.Outputs {
			if !o.Inverted {
				n++
			}
		}
		if n >= 2 {
			multi = true
		}
	}
	v.NonTrivial = len(feats) > 0 && (multi || len(feats) > 0)
	return
}

func trapPanic(f func()) (p string) {
	defer func() {
		if x := recover(); x != nil {
			p = fmt.Sprint(x)
		}
	}()
	f()
	return ""
}

func TestC19Expect(t *testing.T) {
	ev.Run(t, ev.Opts{Property: "C19", Name: "expect", Quick: 800, Thorough: 20000, ShrinkTime: "15s",
		Rule: "sessions of 1-3 steps with 1-4 outputs (pattern, optional accepting/rejecting/failing guard, inverted) run against the subprocess `cat`, which echoes each step's inputs as the emitted stream (instances, duplicates, near misses, non-JSON noise); soundness: if Session.Run returns nil, the documented meaning of the session must hold (every expectation independently satisfied by the lines available to its step, no forbidden output before that); non-trivial = the model says the session must fail (expectation never satisfied, rejecting guard, forbidden output hit)"},
		genExp, checkExp)
}
