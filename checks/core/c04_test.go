package corecheck

import (
	"context"
	"fmt"
	"strings"
	"testing"

	"github.com/Comcast/sheens/core"
	"github.com/Comcast/sheens/match"
	"pgregory.net/rapid"
	"verif/lib/ev"
	"verif/lib/jsongen"
	"verif/lib/sm"
)

// ---------------------------------------------------------------- C04

type StepCase struct {
	Spec       *sm.ASpec              `json:"spec"`
	Node       string                 `json:"node"`
	Bs         map[string]interface{} `json:"bs"`
	HasPending bool                   `json:"hasPending"`
	Pending    interface{}            `json:"pending"`
	// NilBs: the state has no bindings at all (a state read from
	// {"node":"start"}); that is a state with empty bindings
	NilBs bool `json:"nilBs,omitempty"`
}

func genStep(t *rapid.T) StepCase {
	a := sm.GenSpec(t, sm.SpecOpts{NativeToo: true, Fail: 3, GuardFail: 2, Emit: true, UserErrorNode: true})
	c := StepCase{Spec: a}
	c.Node = rapid.SampledFrom(a.NodeNames()).Draw(t, "at")
	if rapid.IntRange(0, 11).Draw(t, "odd") == 0 {
		c.Node = rapid.SampledFrom([]string{"unknown", "error", "@t", ""}).Draw(t, "oddat")
	}
	c.Bs = sm.GenBindings(t, "bs")
	if rapid.IntRange(0, 5).Draw(t, "nilBs") == 0 {
		c.NilBs, c.Bs = true, map[string]interface{}{}
	}
	if rapid.IntRange(0, 3).Draw(t, "hp") > 0 {
		c.HasPending = true
		c.Pending = sm.GenMessage(t, "msg")
	}
	return c
}

// trap runs f and converts a panic into a string.
func trap(f func()) (panicked string) {
	defer func() {
		if x := recover(); x != nil {
			panicked = fmt.Sprint(x)
		}
	}()
	f()
	return ""
}

func checkStep(c StepCase) (v ev.Verdict) {
	spec, err := c.Spec.Compiled()
	if err != nil {
		v.Failf("generated spec does not compile: %v", err)
		return
	}
	var pending interface{}
	if c.HasPending {
		pending = jsongen.Copy(c.Pending)
	}
	var stride *core.Stride
	var serr error
	st := &core.State{NodeName: c.Node, Bs: match.Bindings(jsongen.CopyMap(c.Bs))}
	if c.NilBs {
		st.Bs = nil
		v.Class("state-without-bindings")
	}
	// observe the order in which native guards are consulted
	type call struct {
		p    *sm.Prog
		kind string
	}
	var calls []call
	sm.OnNativeExec = func(p *sm.Prog, kind string) { calls = append(calls, call{p, kind}) }
	defer func() { sm.OnNativeExec = nil }()
	if p := trap(func() { stride, serr = spec.Step(context.Background(), st, pending, nil, nil) }); p != "" {
		// crashes are C07's / C18's subject; counted, not judged here
		v.Skip, v.SkipReason = true, "panic(C07/C18)"
		return
	}
	got := sm.Observe(stride, serr, pending)
	allowed := sm.RefStepTok(c.Spec, c.Node, c.Bs, pendingOrNil(c), sm.TokenFrom(stride), sm.ErrorTextFrom(stride))
	ok, keys := sm.Allowed(got, allowed)
	if !ok {
		v.Failf("step at %q gave %s; the documented rule allows %s", c.Node, got.Key(), strings.Join(keys, " || "))
		return
	}
	// "the first branch whose pattern matches and whose guard returns
	// bindings decides": once a guard has accepted a candidate, neither it
	// nor any later guard is consulted again in this step
	guards := map[*sm.Prog]bool{}
	for _, n := range c.Spec.Nodes {
		for i := range n.Branches {
			if n.Branches[i].Guard != nil && n.Branches[i].GuardNative {
				guards[n.Branches[i].Guard] = true
			}
		}
	}
	accepted := false
	for _, cl := range calls {
		if !guards[cl.p] {
			continue
		}
		if accepted {
			v.Failf("a guard was consulted again after a guard had already accepted a candidate in this step (calls: %d)", len(calls))
			return
		}
		if cl.kind == "ok" {
			accepted = true
			v.Class("native-guard-accepted")
		}
	}
	route := allowed[0].Route
	v.Class("route:" + strings.Split(route, ":")[0])
	if strings.Contains(route, "later-branch") {
		v.Class("later-branch")
	}
	if strings.Contains(route, "guard") {
		v.Class("guarded")
	}
	if strings.Contains(route, "all-tried") {
		v.Class("all-branches-tried")
	}
	if len(allowed) > 1 {
		v.Class("several-allowed")
	}
	if got.Consumed {
		v.Class("consumed")
	}
	if len(got.Emitted) > 0 {
		v.Class("emitted")
	}
	v.NonTrivial = strings.Contains(route, "later-branch") || strings.Contains(route, "guard") ||
		strings.Contains(route, "action") || strings.Contains(route, "all-tried")
	return
}

func pendingOrNil(c StepCase) interface{} {
	if c.HasPending {
		return c.Pending
	}
	return nil
}

func TestC04Step(t *testing.T) {
	ev.Run(t, ev.Opts{Property: "C04", Name: "step", Quick: 20000, Thorough: 1200000,
		Rule: "generated spec (ECMAScript and native actions/guards from the action language, all error settings, @var targets, user error node) x state (known/unknown node, bindings incl. permanent keys) x pending message or none; Spec.Step's (To, Consumed, Emitted, error) must be in the set the executable README rule allows; non-trivial = an action ran, a guard decided, a later branch was taken or all branches were tried"},
		genStep, checkStep)
}

func FuzzC04Step(f *testing.F) {
	ev.Fuzz(f, ev.Opts{Property: "C04", Name: "step"}, genStep, checkStep)
}
