package corecheck

import (
	"context"
	"errors"
	"fmt"
	"strings"
	"testing"

	"github.com/Comcast/sheens/core"
	"github.com/Comcast/sheens/match"
	"pgregory.net/rapid"
	"verif/lib/ev"
	"verif/lib/jsongen"
	"verif/lib/sm"
)

// ---------------------------------------------------------------- C04

type StepCase struct {
	Spec       *sm.ASpec              `json:"spec"`
	Node       string                 `json:"node"`
	Bs         map[string]interface{} `json:"bs"`
	HasPending bool                   `json:"hasPending"`
	Pending    interface{}            `json:"pending"`
	// NilBs: the state has no bindings at all (a state read from
	// {"node":"start"}); that is a state with empty bindings
	NilBs bool `json:"nilBs,omitempty"`
}

func genStep(t *rapid.T) StepCase {
	a := sm.GenSpec(t, sm.SpecOpts{NativeToo: true, Fail: 3, GuardFail: 2, Emit: true, UserErrorNode: true})
	c := StepCase{Spec: a}
	c.Node = rapid.SampledFrom(a.NodeNames()).Draw(t, "at")
	if rapid.IntRange(0, 11).Draw(t, "odd") == 0 {
		c.Node = rapid.SampledFrom([]string{"unknown", "error", "@t", ""}).Draw(t, "oddat")
	}
	c.Bs = sm.GenBindings(t, "bs")
	if rapid.IntRange(0, 5).Draw(t, "nilBs") == 0 {
		c.NilBs, c.Bs = true, map[string]interface{}{}
	}
	if rapid.IntRange(0, 3).Draw(t, "hp") > 0 {
		c.HasPending = true
		c.Pending = sm.GenMessage(t, "msg")
	}
	return c
}

// trap runs f and converts a panic into a string.
func trap(f func()) (panicked string) {
	defer func() {
		if x := recover(); x != nil {
			panicked = fmt.Sprint(x)
		}
	}()
	f()
	return ""
}

func checkStep(c StepCase) (v ev.Verdict) {
	spec, err := c.Spec.Compiled()
	if err != nil {
		v.Failf("generated spec does not compile: %v", err)
		return
	}
	var pending interface{}
	if c.HasPending {
		pending = jsongen.Copy(c.Pending)
	}
	var stride *core.Stride
	var serr error
	st := &core.State{NodeName: c.Node, Bs: match.Bindings(jsongen.CopyMap(c.Bs))}
	if c.NilBs {
		st.Bs = nil
		v.Class("state-without-bindings")
	}
	// observe the order in which native guards are consulted
	type call struct {
		p    *sm.Prog
		kind string
	}
	var calls []call
	sm.OnNativeExec = func(p *sm.Prog, kind string) { calls = append(calls, call{p, kind}) }
	defer func() { sm.OnNativeExec = nil }()
	if p := trap(func() { stride, serr = spec.Step(context.Background(), st, pending, nil, nil) }); p != "" {
		// crashes are C07's / C18's subject; counted, not judged here
		v.Skip, v.SkipReason = true, "panic(C07/C18)"
		return
	}
	got := sm.Observe(stride, serr, pending)
	allowed := sm.RefStepTok(c.Spec, c.Node, c.Bs, pendingOrNil(c), sm.TokenFrom(stride), sm.ErrorTextFrom(stride))
	ok, keys := sm.Allowed(got, allowed)
	if !ok {
		v.Failf("step at %q gave %s; the documented rule allows %s", c.Node, got.Key(), strings.Join(keys, " || "))
		return
	}
	// "the first branch whose pattern matches and whose guard returns
	// bindings decides": once a guard has accepted a candidate, neither it
	// nor any later guard is consulted again in this step
	guards := map[*sm.Prog]bool{}
	for _, n := range c.Spec.Nodes {
		for i := range n.Branches {
			if n.Branches[i].Guard != nil && n.Branches[i].GuardNative {
				guards[n.Branches[i].Guard] = true
			}
		}
	}
	accepted := false
	for _, cl := range calls {
		if !guards[cl.p] {
			continue
		}
		if accepted {
			v.Failf("a guard was consulted again after a guard had already accepted a candidate in this step (calls: %d)", len(calls))
			return
		}
		if cl.kind == "ok" {
			accepted = true
			v.Class("native-guard-accepted")
		}
	}
	route := allowed[0].Route
	v.Class("route:" + strings.Split(route, ":")[0])
	if strings.Contains(route, "later-branch") {
		v.Class("later-branch")
	}
	if strings.Contains(route, "guard") {
		v.Class("guarded")
	}
	if strings.Contains(route, "all-tried") {
		v.Class("all-branches-tried")
	}
	if len(allowed) > 1 {
		v.Class("several-allowed")
	}
	if got.Consumed {
		v.Class("consumed")
	}
	if len(got.Emitted) > 0 {
		v.Class("emitted")
	}
	v.NonTrivial = strings.Contains(route, "later-branch") || strings.Contains(route, "guard") ||
		strings.Contains(route, "action") || strings.Contains(route, "all-tried")
	return
}

func pendingOrNil(c StepCase) interface{} {
	if c.HasPending {
		return c.Pending
	}
	return nil
}

func TestC04Step(t *testing.T) {
	ev.Run(t, ev.Opts{Property: "C04", Name: "step", Quick: 20000, Thorough: 1200000,
		Rule: "generated spec (ECMAScript and native actions/guards from the action language, all error settings, @var targets, user error node) x state (known/unknown node, bindings incl. permanent keys) x pending message or none; Spec.Step's (To, Consumed, Emitted, error) must be in the set the executable README rule allows; non-trivial = an action ran, a guard decided, a later branch was taken or all branches were tried"},
		genStep, checkStep)
}

func FuzzC04Step(f *testing.F) {
	ev.Fuzz(f, ev.Opts{Property: "C04", Name: "step"}, genStep, checkStep)
}

// ---- an action that fails again: the failure that is routed is this one

// RefailCase: the bindings already carry the trace of an earlier failure
// (a retry loop whose handler did not clear it) when an action fails; "an
// action failure is routed according to the specification's error
// settings" - this failure, with its own text, not the earlier one.
type RefailCase struct {
	Earlier   string `json:"earlier"`   // text left in actionError / error
	Now       string `json:"now"`       // text the action fails with
	Native    bool   `json:"native"`    // native or ECMAScript action
	Mode      string `json:"mode"`      // branches, node
	Keys      int    `json:"keys"`      // which of actionError / error are left: 1, 2, 3 (both)
	UseWalk   bool   `json:"useWalk"`   // Walk instead of Step
	Permanent bool   `json:"permanent"` // a permanent binding rides along
}

func genRefail(t *rapid.T) RefailCase {
	texts := []string{"transient", "fatal", "boom", "Error: transient", "disk full"}
	c := RefailCase{Earlier: rapid.SampledFrom(texts).Draw(t, "earlier"), Native: rapid.Bool().Draw(t, "native"),
		Mode: rapid.SampledFrom([]string{"branches", "node"}).Draw(t, "mode"), Keys: rapid.IntRange(1, 3).Draw(t, "keys"),
		UseWalk: rapid.Bool().Draw(t, "walk"), Permanent: rapid.Bool().Draw(t, "perm")}
	c.Now = rapid.SampledFrom(texts).Filter(func(s string) bool { return s != c.Earlier }).Draw(t, "now")
	return c
}

func checkRefail(c RefailCase) (v ev.Verdict) {
	var act core.Action
	var src *core.ActionSource
	if c.Native {
		act = &core.FuncAction{F: func(ctx context.Context, bs match.Bindings, props core.StepProps) (*core.Execution, error) {
			return nil, errors.New(c.Now)
		}}
	} else {
		src = &core.ActionSource{Interpreter: "ecmascript", Source: fmt.Sprintf("throw %q;", c.Now)}
	}
	// the handler tells the failures apart by their text
	pick := &core.Branches{Type: "bindings", Branches: []*core.Branch{
		{Pattern: map[string]interface{}{"actionError": c.Earlier}, Target: "stale"},
		{Pattern: map[string]interface{}{"actionError": "?text"}, Target: "fresh"},
		{Target: "unhandled"}}}
	spec := &core.Spec{Name: "refail", Nodes: map[string]*core.Node{
		"try":  {Action: act, ActionSource: src, Branches: &core.Branches{Type: "bindings", Branches: []*core.Branch{{Target: "fine"}}}},
		"fine": {}, "stale": {}, "fresh": {}, "unhandled": {}}}
	if c.Mode == "branches" {
		spec.ActionErrorBranches = true
		spec.Nodes["try"].Branches = pick
	} else {
		spec.ActionErrorNode = "handler"
		spec.Nodes["handler"] = &core.Node{Branches: pick}
	}
	if err := spec.Compile(context.Background(), sm.Interpreters(), true); err != nil {
		v.Failf("compile: %v", err)
		return
	}
	bs := match.Bindings{"attempt": 2.0}
	if c.Keys&1 != 0 {
		bs["actionError"] = c.Earlier
	}
	if c.Keys&2 != 0 {
		bs["error"] = c.Earlier
	}
	if c.Permanent {
		bs["cfg!"] = "keep"
	}
	st := &core.State{NodeName: "try", Bs: bs}
	var to *core.State
	if c.UseWalk {
		w, err := spec.Walk(context.Background(), st, nil, &core.Control{Limit: 10}, nil)
		if err != nil || w == nil || w.To() == nil {
			v.Failf("Walk: %v", err)
			return
		}
		to = w.To()
	} else {
		s, err := spec.Step(context.Background(), st, nil, nil, nil)
		if err != nil || s == nil || s.To == nil {
			v.Failf("Step: %v (stride %v)", err, s)
			return
		}
		to = s.To
		if c.Mode == "node" {
			// the designated node's own branches decide at the next step
			s, err = spec.Step(context.Background(), to, nil, nil, nil)
			if err != nil || s == nil || s.To == nil {
				v.Failf("Step at the designated node: %v", err)
				return
			}
			to = s.To
		}
	}
	v.Class("mode:" + c.Mode)
	v.NonTrivial = true
	got, _ := to.Bs["actionError"].(string)
	if to.NodeName != "fresh" || !strings.Contains(got, c.Now) {
		v.Failf("an action failed with %q while the bindings still said %q (in %s); the machine went to %q with actionError %q - the failure to route is the one that just happened", c.Now, c.Earlier, []string{"", "actionError", "error", "actionError and error"}[c.Keys], to.NodeName, got)
		return
	}
	if c.Permanent && to.Bs["cfg!"] != "keep" {
		v.Failf("the permanent binding did not survive the failure: %v", to.Bs)
	}
	return
}

func TestC04Refail(t *testing.T) {
	ev.Run(t, ev.Opts{Property: "C04", Name: "refail", Quick: 2000, Thorough: 40000,
		Rule: "an action (native or ECMAScript) fails with one text while the bindings still carry another text under actionError and/or error (a retry loop whose handler did not clear them); error branches or a designated node tell failures apart by their text; through Step and Walk: the machine must be routed by the failure that just happened; every case is non-trivial"},
		genRefail, checkRefail)
}
