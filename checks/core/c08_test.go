package corecheck

import (
	"context"
	"fmt"
	"sort"
	"strings"
	"testing"
	"time"

	"github.com/Comcast/sheens/core"
	"github.com/Comcast/sheens/match"
	"github.com/Comcast/sheens/sio"
	"pgregory.net/rapid"
	"verif/lib/crewh"
	"verif/lib/ev"
	"verif/lib/jsongen"
	"verif/lib/sm"
)

// ---------------------------------------------------------------- C08

type EmitCase struct {
	Spec     *sm.ASpec              `json:"spec"`
	Node     string                 `json:"node"`
	Bs       map[string]interface{} `json:"bs"`
	Messages []interface{}          `json:"messages"`
	Limit    int                    `json:"limit"`
	Crew     bool                   `json:"crew,omitempty"`
	// Two: the crew holds a second machine that answers every message it
	// sees with a message of its own (addressed to nobody), so that one
	// round has the batches of two walks, with different contents
	Two bool `json:"two,omitempty"`
}

const echoSrc = `var n = (typeof _.bindings.n === 'number' ? _.bindings.n : 0) + 1; _.out({to: "nobody", q: n}); _.out({to: "nobody", q: n, second: true}); return {n: n};`

func echoSpec() *core.Spec {
	return &core.Spec{Name: "echo", Nodes: map[string]*core.Node{
		"start": {Branches: &core.Branches{Type: "message", Branches: []*core.Branch{{Pattern: "?m", Target: "echo"}}}},
		"echo": {ActionSource: &core.ActionSource{Interpreter: "ecmascript", Source: echoSrc},
			Branches: &core.Branches{Type: "bindings", Branches: []*core.Branch{{Target: "start"}}}},
	}}
}

func genEmit(t *rapid.T) EmitCase {
	o := sm.SpecOpts{Deterministic: true, Fail: 5, GuardFail: 2, Emit: true, Spin: true}
	a := sm.GenLivelySpec(t, o)
	// make the programs emission-heavy: every action and guard gets
	// extra emits in front of whatever else it does
	for _, name := range a.NodeNames() {
		n := a.Nodes[name]
		if n.Action != nil {
			k := rapid.IntRange(0, 3).Draw(t, "pre."+name)
			var pre []sm.Op
			for i := 0; i < k; i++ {
				m := map[string]interface{}{"from": name, "i": float64(i)}
				if rapid.IntRange(0, 5).Draw(t, fmt.Sprintf("oddto.%s.%d", name, i)) == 0 {
					// a routing field that names nobody in particular (not
					// a string, not a list of strings): such a message
					// goes to everybody
					m["to"] = rapid.SampledFrom([]interface{}{42.0, true, map[string]interface{}{"mid": "billing"}}).Draw(t, fmt.Sprintf("oddtov.%s.%d", name, i))
				}
				if rapid.IntRange(0, 4).Draw(t, fmt.Sprintf("oddkey.%s.%d", name, i)) == 2 {
					// properties that mean something in messages to the
					// crew's service machines, or in the conventions of
					// specifications; in a message from a machine to
					// whom it may concern they are data
					kv := rapid.SampledFrom([][2]interface{}{{"emit", []interface{}{"later"}}, {"emit", true}, {"delete", []interface{}{"m2"}}, {"cancelTimer", "t"}, {"update", map[string]interface{}{}}}).Draw(t, fmt.Sprintf("oddkv.%s.%d", name, i))
					m[kv[0].(string)] = kv[1]
				}
				pre = append(pre, sm.Op{Op: "emit", V: m})
			}
			n.Action.Ops = append(pre, n.Action.Ops...)
		}
		for bi := range n.Branches {
			if g := n.Branches[bi].Guard; g != nil && rapid.Bool().Draw(t, fmt.Sprintf("gpre.%s.%d", name, bi)) {
				g.Ops = append([]sm.Op{{Op: "emit", V: map[string]interface{}{"guard": name}}}, g.Ops...)
			}
		}
	}
	// one action that emits more messages than any small buffer holds
	if rapid.IntRange(0, 9).Draw(t, "burst") == 4 {
		var withAction []string
		for _, name := range a.NodeNames() {
			if a.Nodes[name].Action != nil {
				withAction = append(withAction, name)
			}
		}
		if len(withAction) > 0 {
			n := a.Nodes[rapid.SampledFrom(withAction).Draw(t, "burst.node")]
			var pre []sm.Op
			for i := rapid.SampledFrom([]int{15, 16, 17, 18, 33, 70}).Draw(t, "burst.n"); i > 0; i-- {
				pre = append(pre, sm.Op{Op: "emit", V: map[string]interface{}{"burst": float64(i)}})
			}
			n.Action.Ops = append(pre, n.Action.Ops...)
		}
	}
	// emit, change in place, emit again: what is reported is what was
	// emitted at the time, not what the object became
	if rapid.IntRange(0, 2).Draw(t, "progress") == 0 {
		var withAction []string
		for _, name := range a.NodeNames() {
			if a.Nodes[name].Action != nil {
				withAction = append(withAction, name)
			}
		}
		if len(withAction) > 0 {
			n := a.Nodes[rapid.SampledFrom(withAction).Draw(t, "progress.node")]
			k := rapid.SampledFrom([]string{"x", "y", "n"}).Draw(t, "progress.k")
			pre := []sm.Op{
				{Op: "set", K: k, V: map[string]interface{}{"status": "received", "items": []interface{}{map[string]interface{}{"q": "one"}}}},
				{Op: "emitOf", K: k},
				{Op: "nestSet", K: k, Keys: []string{"status"}, V: "checked"},
				{Op: "emitOf", K: k},
				{Op: "nestSet", K: k, Keys: []string{"status"}, V: "shipped"},
				{Op: "emitOf", K: k},
			}
			n.Action.Ops = append(pre, n.Action.Ops...)
		}
	}
	c := EmitCase{Spec: a, Node: rapid.SampledFrom(a.NodeNames()).Draw(t, "at"), Bs: sm.GenBindings(t, "bs")}
	for i := rapid.IntRange(1, 5).Draw(t, "nm"); i > 0; i-- {
		c.Messages = append(c.Messages, sm.GenMessageFor(t, a, fmt.Sprintf("m%d", i)))
	}
	c.Limit = rapid.SampledFrom([]int{5, 20, 100}).Draw(t, "limit")
	c.Crew = rapid.IntRange(0, 3).Draw(t, "crew") == 0
	c.Two = c.Crew && rapid.Bool().Draw(t, "two")
	return c
}

// expectedEmissions judges the strides of a walk: each stride's
// emissions must be exactly those of its node's action if that action
// completed, nothing otherwise.  Returns a description of the first
// deviation.
func judgeEmissions(a *sm.ASpec, w *core.Walked, v *ev.Verdict) (failedAfterEmit, completedEmitters int, bad string) {
	expired := false
	for i, s := range w.Strides {
		var got []string
		if s.Events != nil {
			for _, e := range s.Events.Emitted {
				got = append(got, jsongen.Canon(e))
			}
		}
		var want []string
		alt := false
		if s.From != nil {
			if n, have := a.Nodes[s.From.NodeName]; have && n.Action != nil && (n.NoBranching || n.BranchType != "message") {
				out := n.Action.Run(map[string]interface{}(s.From.Bs))
				if out.Kind == "ok" || out.Kind == "null" {
					for _, e := range out.Emitted {
						want = append(want, jsongen.Canon(e))
					}
					if len(out.Emitted) > 0 {
						completedEmitters++
					}
					alt = expired // after the deadline an action may also be cut short
				} else {
					emitsFirst := false
					for _, op := range n.Action.Ops {
						if op.Op == "emit" {
							emitsFirst = true
						}
						if op.Op == "throw" || op.Op == "outNaN" || op.Op == "spin" || op.Op == "returnScalar" || op.Op == "returnTrap" {
							break
						}
					}
					if emitsFirst {
						failedAfterEmit++
						v.Class("failed-after-emit:" + out.Why)
					}
					if out.Why == "timeout" {
						expired = true
					}
				}
			}
		}
		if fmt.Sprint(got) != fmt.Sprint(want) {
			if alt && len(got) == 0 {
				continue
			}
			if len(got) == 0 && strideTimedOut(s) {
				// the walk's deadline passed while this action ran (a busy
				// machine): it was cut short, and then nothing is emitted
				expired = true
				continue
			}
			return failedAfterEmit, completedEmitters, fmt.Sprintf("stride %d at %q emitted %v; its action's completed emissions are %v", i, s.From.NodeName, got, want)
		}
	}
	return failedAfterEmit, completedEmitters, ""
}

// strideTimedOut: the stride ended in an action error whose text is the
// interpreter's timeout error.
func strideTimedOut(s *core.Stride) bool {
	if s == nil || s.To == nil {
		return false
	}
	for _, k := range []string{"actionError", "error"} {
		if t, ok := s.To.Bs[k].(string); ok && strings.Contains(t, "timeout") {
			return true
		}
	}
	return false
}

func checkEmit(c EmitCase) (v ev.Verdict) {
	spec, err := c.Spec.Compiled()
	if err != nil {
		v.Failf("spec does not compile: %v", err)
		return
	}
	ctx, cancel := context.WithTimeout(context.Background(), 40*time.Millisecond)
	defer cancel()
	if !specSpins(c.Spec) {
		ctx = context.Background()
	}
	st := &core.State{NodeName: c.Node, Bs: match.Bindings(jsongen.CopyMap(c.Bs))}
	var w *core.Walked
	if p := trap(func() { w, err = spec.Walk(ctx, st, copyMsgs(c.Messages), &core.Control{Limit: c.Limit}, nil) }); p != "" {
		v.Skip, v.SkipReason = true, "panic(C07)"
		return
	}
	if err != nil || w == nil {
		v.Failf("Walk failed: %v", err)
		return
	}
	fa, ce, bad := judgeEmissions(c.Spec, w, &v)
	if bad != "" {
		v.Failf("%s", bad)
		return
	}
	// DoEmitted = concatenation in stride order
	var all []string
	for _, s := range w.Strides {
		if s.Events != nil {
			for _, e := range s.Events.Emitted {
				all = append(all, jsongen.Canon(e))
			}
		}
	}
	if got := emittedOf(w); fmt.Sprint(got) != fmt.Sprint(all) {
		v.Failf("DoEmitted yields %v, the strides in order hold %v", got, all)
		return
	}
	v.NonTrivial = fa >= 1 || ce >= 2
	if ce >= 2 {
		v.Class("completed-emitters>=2")
	}
	if !c.Crew || specSpins(c.Spec) {
		return
	}
	// The same spec hosted in a crew: what the crew reports must be
	// what the walks emitted, batch by batch, with re-injection.
	v.Class("crew")
	compiled2, _ := c.Spec.Compiled()
	type sim struct {
		state   *core.State
		batches [][]string
	}
	s := sim{state: &core.State{NodeName: c.Node, Bs: match.Bindings(jsongen.CopyMap(c.Bs))}}
	budget := 150
	strides := 1500
	terminated := true
	echoed := 0
	var expected [][][]string
	for _, m := range c.Messages {
		var batches [][]string
		queue := []interface{}{jsongen.Copy(m)}
		for len(queue) > 0 {
			budget--
			if budget < 0 {
				terminated = false
				break
			}
			msg := queue[0]
			queue = queue[1:]
			if c.Two && msg != nil {
				// the second machine sees what the first one sees (a
				// null message is no message), and answers with two
				// messages nobody receives
				echoed++
				batches = append(batches, []string{
					jsongen.Canon(map[string]interface{}{"to": "nobody", "q": float64(echoed)}),
					jsongen.Canon(map[string]interface{}{"to": "nobody", "q": float64(echoed), "second": true})})
			}
			ww, err := compiled2.Walk(context.Background(), s.state, []interface{}{msg}, &core.Control{Limit: c.Limit}, nil)
			if err != nil {
				terminated = false
				break
			}
			if to := ww.To(); to != nil {
				s.state = to
			}
			// (bounded by work, not only by walks: a looping machine
			// whose bindings grow makes every further stride dearer)
			strides -= len(ww.Strides)
			if strides < 0 {
				terminated = false
				break
			}
			var batch []string
			ww.DoEmitted(func(x interface{}) error {
				batch = append(batch, jsongen.Canon(x))
				queue = append(queue, x)
				return nil
			})
			if len(batch) > 0 {
				batches = append(batches, batch)
			}
		}
		if !terminated {
			break
		}
		expected = append(expected, batches)
	}
	if !terminated {
		v.Class("crew-skipped(emission loop)")
		return
	}
	cctx := context.Background()
	cr, _, err := crewh.NewCrew(cctx, c.Limit, 16)
	if err != nil {
		v.Failf("NewCrew: %v", err)
		return
	}
	src, err := crewh.InlineSource(c.Spec.Build())
	if err != nil {
		v.Failf("inline source: %v", err)
		return
	}
	if err := cr.SetMachine(cctx, "m", src, &core.State{NodeName: c.Node, Bs: match.Bindings(jsongen.CopyMap(c.Bs))}); err != nil {
		v.Failf("SetMachine: %v", err)
		return
	}
	if c.Two {
		src2, err := crewh.InlineSource(echoSpec())
		if err != nil {
			v.Failf("inline source: %v", err)
			return
		}
		if err := cr.SetMachine(cctx, "m2", src2, nil); err != nil {
			v.Failf("SetMachine: %v", err)
			return
		}
		v.Class("crew-of-two")
	}
	// SetMachine with a state for a new machine creates it with that state
	for i, m := range c.Messages {
		var r *sio.Result
		var err error
		done := make(chan struct{})
		go func() { defer close(done); r, err = cr.ProcessMsg(cctx, jsongen.Copy(m)) }()
		select {
		case <-done:
		case <-time.After(30 * time.Second):
			v.Failf("the crew did not finish processing message %d within 30 s although the machine's walks terminate", i)
			return
		}
		if err != nil {
			v.Failf("ProcessMsg: %v", err)
			return
		}
		var got [][]string
		for _, b := range r.Emitted {
			var bb []string
			for _, x := range b {
				bb = append(bb, jsongen.Canon(x))
			}
			got = append(got, bb)
		}
		if c.Two {
			// the order in which the two machines are visited is not fixed
			sortBatches(got)
			sortBatches(expected[i])
		}
		if fmt.Sprint(got) != fmt.Sprint(expected[i]) {
			v.Failf("crew reported emissions %v for message %d; the machine's walks emitted %v", got, i, expected[i])
			return
		}
	}
	return
}

func sortBatches(bs [][]string) {
	sort.Slice(bs, func(i, j int) bool { return fmt.Sprint(bs[i]) < fmt.Sprint(bs[j]) })
}

func TestC08Emit(t *testing.T) {
	ev.Run(t, ev.Opts{Property: "C08", Name: "emit", Quick: 5000, Thorough: 120000,
		Rule: "lively deterministic specs whose ECMAScript actions and guards emit, mutate and fail (throw, bad return value, unserialisable emission, timeout) after the k-th emit, walked over 1-5 messages, and hosted in an sio crew; each stride's emissions must be exactly its action's emissions if the action completed and none otherwise, DoEmitted the concatenation, the crew's Result.Emitted the per-walk batches; non-trivial = an action emitted and then failed, or >= 2 emitting actions completed"},
		genEmit, checkEmit)
}
