package corecheck

import (
	"bytes"
	"context"
	"encoding/json"
	"fmt"
	"os"
	"os/exec"
	"path/filepath"
	"strings"
	"sync"
	"testing"
	"time"

	"github.com/Comcast/sheens/core"
	"github.com/Comcast/sheens/interpreters"
	"github.com/Comcast/sheens/match"
	"github.com/Comcast/sheens/sio"
	"github.com/jsccast/yaml"
	"pgregory.net/rapid"
	"verif/lib/ev"
	"verif/lib/jsongen"
	"verif/lib/sm"
)

// ---------------------------------------------------------------- C07

// Mut is one structure-aware mutation of a spec document.
type Mut struct {
	Kind string      `json:"kind"`
	Node string      `json:"node,omitempty"`
	I    int         `json:"i,omitempty"`
	V    interface{} `json:"v,omitempty"`
}

type TotalCase struct {
	Spec  *sm.ASpec `json:"spec"`
	Muts  []Mut     `json:"muts,omitempty"`
	Load  string    `json:"load"` // "go", "json", "yaml"
	Node  string    `json:"node"`
	NilBs bool      `json:"nilBs,omitempty"`
	// Crowd: three other machines of the same compiled specification
	// (their own states, their own permanent bindings) are walked on
	// goroutines of their own while the judged one is: a host with
	// several machines must not be brought down by that either
	Crowd    bool                   `json:"crowd,omitempty"`
	Bs       map[string]interface{} `json:"bs"`
	Messages []interface{}          `json:"messages"`
	NilCtl   bool                   `json:"nilCtl,omitempty"`
	Limit    int                    `json:"limit"`
	Break    BreakSpec              `json:"break"`
	Props    bool                   `json:"props,omitempty"`
	UseStep  bool                   `json:"useStep,omitempty"`
	Deadline int                    `json:"deadlineMs"`
	// GoTyped: messages and bindings also hold values of Go types that
	// no JSON decoder produces ([]string, map[string]string, []byte,
	// structs) - what an in-process host or a native action may pass
	GoTyped bool `json:"goTyped,omitempty"`
	// ByCancel: the context ends by cancellation instead of a deadline
	ByCancel bool `json:"byCancel,omitempty"`
	// KnotNode (Go-built specs): this node's action is replaced by a
	// native action that binds self-containing values
	KnotNode string `json:"knotNode,omitempty"`
}

var mutKinds = []string{"nullNode", "nullBranching", "nullBranchList", "nullBranch", "nullAction", "nullGuard", "nullPattern",
	"badInterpreter", "badGuardInterpreter", "badSyntax", "jsonSyntax", "badBranchType", "emptyNodeName", "badTarget", "badErrorNode",
	"numberSource", "objectSource", "arraySource", "guardObjectSource", "guardArraySource", "guardNumberSource", "guardNullSource", "bootObjectSource", "stringNode", "listNodes", "stringBranches", "numberPattern", "nullNodes", "noNodes", "badJSONPattern", "nullSource", "knotAction", "knotAction", "knotGuard", "oddScript", "oddScript", "oddGuardScript"}

var oddScripts = [][2]string{
	{"ecmascript-ext", `_.match({"a":"?x"}, {"a":1}, 7); return _.bindings;`},
	{"ecmascript-ext", `_.match({"a":"?x"}, {"a":1}, null); return _.bindings;`},
	{"ecmascript-ext", `_.match({"a":"?x"}, {"a":1}, [1]); return _.bindings;`},
	{"goja", `_.match(); return _.bindings;`},
	{"goja", `_.match({"a":["?x","?y"]}, {"a":[1]}, {}); return _.bindings;`},
	{"ecmascript-ext", `_.cronNext(42); return _.bindings;`},
	{"ecmascript-ext", `_.cronNext("not a cron expression"); return _.bindings;`},
	{"ecmascript-ext", `return {r: _.randstr(), e: _.esc ? _.esc("a b") : null};`},
	{"ecmascript", `return Object.defineProperty({}, "a", {enumerable: true, get: function() { throw new Error("boom"); }});`},
	{"ecmascript", `var bs = _.bindings; bs.t = {toJSON: function() { throw new Error("no json"); }}; return bs;`},
	{"ecmascript", `_.out(Object.defineProperty({}, "a", {enumerable: true, get: function() { throw new Error("boom"); }})); return _.bindings;`},
	{"ecmascript", `return function() {};`},
	{"ecmascript", `return new Date(0);`},
	{"ecmascript", `var a = []; a[3000] = 1; return {a: a};`},
	{"ecmascript", `return {f: function() {}, u: undefined, s: Symbol ? "sym" : 1};`},
	{"ecmascript", `_.out(undefined); _.out(function() {}); return _.bindings;`},
	{"ecmascript", `throw null;`},
	{"ecmascript", `throw {toString: function() { throw new Error("again"); }};`},
	{"ecmascript", `_.bindings = null; return _.bindings;`},
	{"ecmascript", `return new Proxy ? new Proxy({}, {ownKeys: function() { throw new Error("keys"); }}) : {};`},
	// values that contain themselves, where a bindings object is expected
	{"ecmascript", `var a = {}; a.a = a; return [a];`},
	{"ecmascript", `var a = []; a[0] = a; return a;`},
	{"ecmascript", `var a = {}; a.a = a; _.out(a); _.out([a]); return _.bindings;`},
	{"ecmascript", `var a = {}; a.a = a; throw a;`},
}

// fatalScripts turn an array that contains itself into a string.  The
// ECMAScript engine the repository pins (goja) follows the cycle in native
// code until the Go stack is exhausted, which no recover can stop: the
// process dies.  That is known finding C07/script-stringifies-self-containing-array;
// while it is listed, these scripts are not generated in-process (the
// search has to go on) and TestC07Total shows the finding in a child
// process instead.  Were the entry removed, they would be generated again
// and the dying test process reported as a violation.
var fatalScripts = [][2]string{
	{"ecmascript", `var a = []; a[0] = a; throw a;`},
	{"ecmascript", `var a = []; a[0] = a; return {s: String(a)};`},
	{"ecmascript", `var a = [1]; a.push([a]); return {s: a.join("-")};`},
}

const fatalSignature = "C07/script-stringifies-self-containing-array"

func init() {
	if _, known := ev.IsKnown("C07", fatalSignature); !known {
		oddScripts = append(oddScripts, fatalScripts...)
	}
}

// TestC07FatalChild is the child process of the probe below.
func TestC07FatalChild(t *testing.T) {
	src := os.Getenv("VERIF_C07_FATAL_SCRIPT")
	if src == "" {
		t.Skip("only run as a child of TestC07Total")
	}
	spec := &core.Spec{Name: "fatal", Nodes: map[string]*core.Node{
		"start": {ActionSource: &core.ActionSource{Interpreter: "ecmascript", Source: src},
			Branches: &core.Branches{Branches: []*core.Branch{{Target: "there"}}}},
		"there": {}}}
	if err := spec.Compile(context.Background(), interpreters.Standard(), true); err != nil {
		t.Fatalf("compile: %v", err)
	}
	ctx, cancel := context.WithTimeout(context.Background(), 5*time.Second)
	defer cancel()
	w, err := spec.Walk(ctx, &core.State{NodeName: "start", Bs: match.NewBindings()}, nil, nil, nil)
	fmt.Printf("SURVIVED walked=%v err=%v\n", w != nil, err)
}

// probeFatal runs each fatal script in a child process and says how
// many of them killed it.
func probeFatal() (died []string, unclear []string) {
	for _, s := range fatalScripts {
		cmd := exec.Command(os.Args[0], "-test.run", "^TestC07FatalChild$", "-test.count", "1", "-test.v")
		cmd.Env = append(os.Environ(), "VERIF_C07_FATAL_SCRIPT="+s[1], "VERIF_STATS=", "VERIF_REPLAY=")
		var out bytes.Buffer
		cmd.Stdout, cmd.Stderr = &out, &out
		done := make(chan error, 1)
		if err := cmd.Start(); err != nil {
			unclear = append(unclear, s[1]+": "+err.Error())
			continue
		}
		go func() { done <- cmd.Wait() }()
		select {
		case <-done:
		case <-time.After(120 * time.Second):
			cmd.Process.Kill()
			<-done
			unclear = append(unclear, s[1]+": child did not end")
			continue
		}
		text := out.String()
		switch {
		case strings.Contains(text, "SURVIVED"):
		case strings.Contains(text, "stack overflow") || strings.Contains(text, "fatal error:"):
			died = append(died, s[1])
		default:
			unclear = append(unclear, s[1]+": "+ev.Trunc(text, 200))
		}
	}
	return
}

const knotSource = `var bs = _.bindings; bs.knot = {}; bs.knot.self = bs.knot; bs.ring = [1]; bs.ring.push(bs.ring); return bs;`

// knotNative is the same behaviour as a native action: it binds a map
// and a slice that contain themselves.
func knotNative() core.Action {
	return &core.FuncAction{F: func(ctx context.Context, bs match.Bindings, props core.StepProps) (*core.Execution, error) {
		out := bs.Copy()
		if out == nil {
			out = match.Bindings{}
		}
		m := map[string]interface{}{}
		m["self"] = m
		ring := make([]interface{}, 1)
		ring[0] = ring
		out["knot"], out["ring"] = m, ring
		return core.NewExecution(out), nil
	}}
}

func genTotal(t *rapid.T) TotalCase {
	o := sm.SpecOpts{NativeToo: true, InPlace: true, Fail: 5, GuardFail: 4, Emit: true, UserErrorNode: true, Spin: true, IneqBound: true, IneqOdd: true}
	var a *sm.ASpec
	if rapid.Bool().Draw(t, "lively") {
		a = sm.GenLivelySpec(t, o)
	} else {
		a = sm.GenSpec(t, o)
	}
	// native failure with a partial execution result
	for _, name := range a.NodeNames() {
		n := a.Nodes[name]
		if n.Action != nil && n.ActionNative && rapid.IntRange(0, 2).Draw(t, "partial."+name) == 0 {
			n.Action.Partial = true
		}
	}
	c := TotalCase{Spec: a}
	c.Load = rapid.SampledFrom([]string{"go", "go", "json", "yaml"}).Draw(t, "load")
	if c.Load != "go" {
		for i := rapid.IntRange(0, 3).Draw(t, "nmut"); i > 0; i-- {
			m := Mut{Kind: rapid.SampledFrom(mutKinds).Draw(t, fmt.Sprintf("mk%d", i)),
				Node: rapid.SampledFrom(a.NodeNames()).Draw(t, fmt.Sprintf("mn%d", i)),
				I:    rapid.IntRange(0, 59).Draw(t, fmt.Sprintf("mi%d", i))}
			c.Muts = append(c.Muts, m)
		}
	}
	if c.Load == "go" && rapid.IntRange(0, 5).Draw(t, "knot") == 0 {
		c.KnotNode = rapid.SampledFrom(a.NodeNames()).Draw(t, "knotNode")
	}
	c.Node = rapid.SampledFrom(append(a.NodeNames(), "unknown", "error", "")).Draw(t, "at")
	if c.KnotNode != "" && rapid.Bool().Draw(t, "atKnot") {
		c.Node = c.KnotNode
	}
	if c.Load != "go" && rapid.IntRange(0, 3).Draw(t, "oddHere") == 0 {
		// an odd script right where the machine is (the drawn mutations
		// above seldom land on the node that runs)
		if _, real := a.Nodes[c.Node]; real {
			c.Muts = append(c.Muts, Mut{Kind: rapid.SampledFrom([]string{"oddScript", "oddScript", "oddGuardScript"}).Draw(t, "oddKind"),
				Node: c.Node, I: rapid.IntRange(0, 599).Draw(t, "oddI")})
		}
	}
	c.NilBs = rapid.IntRange(0, 4).Draw(t, "nilbs") == 0
	if !c.NilBs {
		c.Bs = sm.GenBindings(t, "bs")
	}
	for i := rapid.IntRange(0, 4).Draw(t, "nm"); i > 0; i-- {
		if k := rapid.IntRange(0, 7).Draw(t, fmt.Sprintf("null%d", i)); k == 0 {
			c.Messages = append(c.Messages, nil)
		} else if pats := sm.MessagePatterns(a); k == 2 && len(pats) > 0 {
			// a message that is one of the spec's own patterns (its
			// strings look like pattern variables)
			c.Messages = append(c.Messages, jsongen.Copy(pats[rapid.IntRange(0, len(pats)-1).Draw(t, fmt.Sprintf("selfpat%d", i))]))
		} else if k == 1 {
			// messages whose strings look like pattern variables
			hv := rapid.SampledFrom([]interface{}{"?x", "?", "??o", "?<n", "?p", "?m", "?y"}).Draw(t, fmt.Sprintf("hostile%d", i))
			c.Messages = append(c.Messages, map[string]interface{}{
				rapid.SampledFrom([]string{"a", "b", "c"}).Draw(t, fmt.Sprintf("hk%d", i)):  hv,
				rapid.SampledFrom([]string{"a", "b", "c"}).Draw(t, fmt.Sprintf("hk2%d", i)): rapid.SampledFrom([]interface{}{"?x", 1.0, "?y"}).Draw(t, fmt.Sprintf("hostile2%d", i))})
		} else {
			c.Messages = append(c.Messages, sm.GenMessageFor(t, a, fmt.Sprintf("m%d", i)))
		}
	}
	c.NilCtl = rapid.IntRange(0, 4).Draw(t, "nilctl") == 0
	c.Limit = rapid.SampledFrom([]int{-1, -100, 0, 1, 3, 10, 50}).Draw(t, "limit")
	switch rapid.IntRange(0, 6).Draw(t, "bk") {
	case 0:
		c.Break = BreakSpec{Kind: "node", Node: rapid.SampledFrom(a.NodeNames()).Draw(t, "bn")}
	case 1:
		c.Break = BreakSpec{Kind: "binding", Key: "x"}
	}
	c.Props = rapid.Bool().Draw(t, "props")
	c.UseStep = rapid.IntRange(0, 3).Draw(t, "useStep") == 0
	c.Deadline = rapid.SampledFrom([]int{0, 5, 30, 30}).Draw(t, "deadline")
	c.ByCancel = rapid.Bool().Draw(t, "byCancel")
	c.Crowd = rapid.IntRange(0, 5).Draw(t, "crowd") == 0
	c.GoTyped = rapid.IntRange(0, 4).Draw(t, "goTyped") == 0
	return c
}

func nodeOf(doc map[string]interface{}, name string) map[string]interface{} {
	nodes, _ := doc["nodes"].(map[string]interface{})
	n, _ := nodes[name].(map[string]interface{})
	return n
}

func branchesOf(n map[string]interface{}) []interface{} {
	if n == nil {
		return nil
	}
	br, _ := n["branching"].(map[string]interface{})
	if br == nil {
		return nil
	}
	l, _ := br["branches"].([]interface{})
	return l
}

func applyMut(doc map[string]interface{}, m Mut, yamlKeys bool) {
	key := func(k string) string {
		if yamlKeys {
			return strings.ToLower(k)
		}
		return k
	}
	nodes, _ := doc["nodes"].(map[string]interface{})
	n := nodeOf(doc, m.Node)
	brs := branchesOf(n)
	var br map[string]interface{}
	if len(brs) > 0 {
		br, _ = brs[m.I%len(brs)].(map[string]interface{})
	}
	switch m.Kind {
	case "nullNode":
		if nodes != nil {
			nodes[m.Node] = nil
		}
	case "nullBranching":
		if n != nil {
			n["branching"] = nil
		}
	case "nullBranchList":
		if n != nil {
			if b, ok := n["branching"].(map[string]interface{}); ok {
				b["branches"] = nil
			}
		}
	case "nullBranch":
		if n != nil {
			if b, ok := n["branching"].(map[string]interface{}); ok {
				b["branches"] = append(append([]interface{}{}, brs...), nil)
				if len(brs) > 0 && m.I == 0 {
					b["branches"] = append([]interface{}{nil}, brs...)
				}
			}
		}
	case "nullAction":
		if n != nil {
			n["action"] = nil
		}
	case "nullGuard":
		if br != nil {
			br["guard"] = nil
		}
	case "nullPattern":
		if br != nil {
			br["pattern"] = nil
		}
	case "knotAction":
		// an action that binds a value that contains itself (cannot be
		// serialised; nothing read from JSON looks like it)
		if n != nil {
			n["action"] = map[string]interface{}{"interpreter": "ecmascript", "source": knotSource}
		}
	case "oddScript":
		// behaviours at the edge of the interpreter: helpers of the
		// extended interpreter called with the wrong arguments, results
		// whose export runs script code (getters, toJSON), odd returns
		if n != nil {
			src := oddScripts[m.I%len(oddScripts)]
			n["action"] = map[string]interface{}{"interpreter": src[0], "source": src[1]}
		}
	case "oddGuardScript":
		if br != nil {
			src := oddScripts[m.I%len(oddScripts)]
			br["guard"] = map[string]interface{}{"interpreter": src[0], "source": src[1]}
		}
	case "knotGuard":
		if br != nil {
			br["guard"] = map[string]interface{}{"interpreter": "ecmascript", "source": knotSource}
		}
	case "badInterpreter":
		if n != nil {
			n["action"] = map[string]interface{}{"interpreter": "cobol", "source": "return _.bindings;"}
		}
	case "badGuardInterpreter":
		if br != nil {
			br["guard"] = map[string]interface{}{"interpreter": "cobol", "source": "return _.bindings;"}
		}
	case "badSyntax":
		doc[key("patternSyntax")] = "xml"
	case "jsonSyntax":
		doc[key("patternSyntax")] = "json"
	case "badBranchType":
		if n != nil {
			if b, ok := n["branching"].(map[string]interface{}); ok {
				b["type"] = "sideways"
			}
		}
	case "emptyNodeName":
		if nodes != nil {
			nodes[""] = nodes[m.Node]
		}
	case "badTarget":
		if br != nil {
			br["target"] = "nowhere"
		}
	case "badErrorNode":
		doc[key("errorNode")] = "nowhere"
	case "numberSource":
		if n != nil {
			n["action"] = map[string]interface{}{"interpreter": "ecmascript", "source": 42.0}
		}
	case "objectSource":
		if n != nil {
			n["action"] = map[string]interface{}{"interpreter": "ecmascript", "source": map[string]interface{}{"a": 1.0}}
		}
	case "arraySource":
		if n != nil {
			n["action"] = map[string]interface{}{"interpreter": "ecmascript", "source": []interface{}{"return _.bindings;"}}
		}
	case "guardObjectSource":
		if br != nil {
			br["guard"] = map[string]interface{}{"interpreter": "noop", "source": map[string]interface{}{"allow": "always"}}
		}
	case "guardArraySource":
		if br != nil {
			br["guard"] = map[string]interface{}{"interpreter": "ecmascript", "source": []interface{}{"return _.bindings;"}}
		}
	case "guardNumberSource":
		if br != nil {
			br["guard"] = map[string]interface{}{"interpreter": "ecmascript", "source": 7.0}
		}
	case "guardNullSource":
		if br != nil {
			br["guard"] = map[string]interface{}{"interpreter": "ecmascript", "source": nil}
		}
	case "bootObjectSource":
		doc["boot"] = map[string]interface{}{"interpreter": "ecmascript", "source": map[string]interface{}{"a": []interface{}{1.0}}}
	case "nullSource":
		if n != nil {
			n["action"] = map[string]interface{}{"interpreter": "ecmascript", "source": nil}
		}
	case "stringNode":
		if nodes != nil {
			nodes[m.Node] = "not a node"
		}
	case "listNodes":
		doc["nodes"] = []interface{}{1.0}
	case "stringBranches":
		if n != nil {
			if b, ok := n["branching"].(map[string]interface{}); ok {
				b["branches"] = "nope"
			}
		}
	case "numberPattern":
		if br != nil {
			br["pattern"] = 7.0
		}
	case "badJSONPattern":
		doc[key("patternSyntax")] = "json"
		if br != nil {
			br["pattern"] = "{not json"
		}
	case "nullNodes":
		doc["nodes"] = nil
	case "noNodes":
		delete(doc, "nodes")
	}
}

// withWatchdog runs f; reports a panic text or a hang.
func withWatchdog(d time.Duration, f func()) (panicked string, hung bool) {
	done := make(chan string, 1)
	go func() {
		done <- trap(f)
	}()
	select {
	case p := <-done:
		return p, false
	case <-time.After(d):
		return "", true
	}
}

func checkTotal(c TotalCase) (v ev.Verdict) {
	dims := 0
	sm.CheckCycles = c.KnotNode != ""
	v.Class("load:" + c.Load)
	var spec *core.Spec
	switch c.Load {
	case "go":
		spec = c.Spec.Build()
		if n := spec.Nodes[c.KnotNode]; c.KnotNode != "" && n != nil {
			n.Action, n.ActionSource = knotNative(), nil
			v.Class("native-knot")
			dims++
		}
	default:
		// document = the Go-built spec rendered as JSON / YAML (native
		// actions are not representable and drop out), re-read as a
		// generic tree, mutated, rendered again
		built := c.Spec.Build()
		var doc map[string]interface{}
		if c.Load == "json" {
			js, err := json.Marshal(built)
			if err != nil {
				v.Failf("cannot serialise spec: %v", err)
				return
			}
			json.Unmarshal(js, &doc)
		} else {
			ys, err := yaml.Marshal(built)
			if err != nil {
				v.Skip, v.SkipReason = true, "yaml-render"
				return
			}
			if err := yaml.Unmarshal(ys, &doc); err != nil {
				v.Skip, v.SkipReason = true, "yaml-render"
				return
			}
		}
		for _, m := range c.Muts {
			applyMut(doc, m, c.Load == "yaml")
			v.Class("mut:" + m.Kind)
		}
		if len(c.Muts) > 0 {
			dims++
		}
		spec = &core.Spec{}
		var lerr error
		var p string
		if c.Load == "json" {
			js2, _ := json.Marshal(doc)
			p = trap(func() { lerr = json.Unmarshal(js2, spec) })
		} else {
			ys, yerr := yaml.Marshal(doc)
			if yerr != nil {
				v.Skip, v.SkipReason = true, "yaml-render"
				return
			}
			p = trap(func() { lerr = yaml.Unmarshal(ys, spec) })
		}
		if p != "" {
			v.Failf("loading the %s document panicked: %s", c.Load, p)
			return
		}
		if lerr != nil {
			v.Class("load-error")
			v.NonTrivial = len(c.Muts) > 0
			return
		}
	}
	var cerr error
	ints := core.Interpreters(sm.Interpreters())
	if c.Load != "go" {
		ints = interpreters.Standard() // what mcrew, msimple and mdb use
	}
	if p, hung := withWatchdog(20*time.Second, func() { cerr = spec.Compile(context.Background(), ints, true) }); p != "" || hung {
		v.Failf("Compile panicked or hung (hung=%v) on document mutations %s: %s", hung, ev.JS(c.Muts), p)
		return
	}
	if cerr != nil {
		v.Class("compile-error")
		v.NonTrivial = len(c.Muts) > 0
		return
	}
	v.Class("compiled")
	// run
	ctx := context.Background()
	if limit := c.Deadline; limit > 0 || specSpins(c.Spec) {
		if limit == 0 {
			limit = 30
		}
		var cancel context.CancelFunc
		if c.ByCancel {
			// the host gives up by cancelling, not by a deadline
			ctx, cancel = context.WithCancel(ctx)
			tm := time.AfterFunc(time.Duration(limit)*time.Millisecond, cancel)
			defer tm.Stop()
			v.Class("context-cancelled")
		} else {
			ctx, cancel = context.WithTimeout(ctx, time.Duration(limit)*time.Millisecond)
		}
		defer cancel()
	}
	st := &core.State{NodeName: c.Node}
	if !c.NilBs {
		st.Bs = match.Bindings(jsongen.CopyMap(c.Bs))
		if st.Bs == nil {
			st.Bs = match.Bindings{}
		}
	} else {
		dims++
		v.Class("nil-bindings")
	}
	for k := range c.Bs {
		if strings.HasSuffix(k, "!") {
			dims++
			v.Class("permanent-binding")
			break
		}
	}
	var ctl *core.Control
	if !c.NilCtl {
		wc := WalkCase{Limit: c.Limit, Break: c.Break}
		ctl = wc.control()
		if c.Limit <= 0 {
			dims++
			v.Class("limit<=0")
		}
	} else {
		dims++
		v.Class("nil-control")
	}
	var props core.StepProps
	if c.Props {
		props = core.StepProps{"p": 1.0}
	}
	if _, known := spec.Nodes[c.Node]; !known {
		dims++
		v.Class("unknown-node")
	}
	msgs := copyMsgs(c.Messages)
	if c.GoTyped {
		typed := func() []interface{} {
			return []interface{}{[]string{"x", "y"}, map[string]string{"k": "v"}, []byte("b"), struct{ A int }{1}, 1.0, "a"}
		}
		for _, k := range []string{"a", "b", "c", "l"} {
			msgs = append(msgs, map[string]interface{}{k: typed(), "t": []string{"n1"}}, typed())
		}
		if st.Bs != nil {
			st.Bs["l"], st.Bs["a"], st.Bs["x"] = typed(), typed(), map[string]string{"k": "v"}
		}
		dims++
		v.Class("go-typed-values")
	}
	for _, m := range msgs {
		if m == nil {
			v.Class("null-message")
			break
		}
	}
	failing := false
	for _, n := range c.Spec.Nodes {
		if n.Action != nil && n.Action.Has("throw", "returnNull", "returnScalar", "returnTrap", "outNaN", "spin") {
			failing = true
		}
		for _, b := range n.Branches {
			if b.Guard != nil && b.Guard.Has("throw", "returnNull", "returnScalar", "returnTrap", "outNaN", "spin") {
				failing = true
			}
		}
	}
	if failing {
		dims++
		v.Class("failing-behaviour")
	}
	v.NonTrivial = dims >= 2
	var w *core.Walked
	var werr error
	var s *core.Stride
	var crowd sync.WaitGroup
	var crowdMu sync.Mutex
	crowdPanic := ""
	if c.Crowd {
		v.Class("other-machines-at-the-same-time")
		for g := 0; g < 3; g++ {
			crowd.Add(1)
			go func(g int) {
				defer crowd.Done()
				defer func() {
					if x := recover(); x != nil {
						crowdMu.Lock()
						crowdPanic = fmt.Sprint(x)
						crowdMu.Unlock()
					}
				}()
				for r := 0; r < 3; r++ {
					bs := match.Bindings(jsongen.CopyMap(c.Bs))
					if bs == nil {
						bs = match.Bindings{}
					}
					bs["who!"], bs["cfg!"] = float64(g), map[string]interface{}{"g": float64(g)}
					var ctl2 *core.Control
					if !c.NilCtl {
						wc := WalkCase{Limit: c.Limit, Break: c.Break}
						ctl2 = wc.control()
					}
					spec.Walk(ctx, &core.State{NodeName: c.Node, Bs: bs}, copyMsgs(c.Messages), ctl2, nil)
				}
			}(g)
		}
	}
	p, hung := withWatchdog(30*time.Second, func() {
		defer crowd.Wait()
		if c.UseStep {
			var pending interface{}
			if len(msgs) > 0 {
				pending = msgs[0]
			}
			s, werr = spec.Step(ctx, st, pending, ctl, props)
		} else {
			w, werr = spec.Walk(ctx, st, msgs, ctl, props)
		}
	})
	if hung {
		v.Failf("processing did not return within 30 s")
		return
	}
	if crowdPanic != "" {
		v.Failf("another machine of the same specification, walked at the same time, panicked: %s", crowdPanic)
		return
	}
	if p != "" {
		what := "Walk"
		if c.UseStep {
			what = "Step"
		}
		v.Failf("%s panicked (state %q nilBs=%v nilControl=%v limit=%d): %s", what, c.Node, c.NilBs, c.NilCtl, c.Limit, p)
		return
	}
	if c.UseStep {
		if s == nil && werr == nil {
			v.Failf("Step returned neither a stride nor an error")
		}
		return
	}
	if werr != nil {
		v.Class("walk-error-returned")
		return
	}
	if w == nil {
		v.Failf("Walk returned neither a result nor an error")
		return
	}
	// every failed action must be surfaced: designated node with the
	// error text, or the error node with error, lastNode, lastBindings
	if (c.Load != "go" && len(c.Muts) > 0) || c.KnotNode != "" {
		return // the abstract spec no longer describes the document
	}
	for i, sd := range w.Strides {
		if sd.From == nil {
			continue
		}
		an, have := c.Spec.Nodes[sd.From.NodeName]
		if !have || an.Action == nil || (an.ActionNative && c.Load != "go") {
			continue
		}
		if !an.NoBranching && an.BranchType == "message" {
			continue
		}
		out := an.Action.Run(map[string]interface{}(sd.From.Bs))
		if sd.From.Bs == nil {
			continue
		}
		if out.Kind != "fail" || out.Why == "timeout" {
			continue
		}
		v.Class("action-failure-observed")
		if c.Spec.ActionErrorBranches {
			continue // the branches decide; they were offered the error
		}
		if sd.To == nil {
			if sd.From.NodeName == "error" {
				continue
			}
			v.Failf("stride %d: the action at %q failed (%s) but the stride goes nowhere and no error was returned", i, sd.From.NodeName, out.Why)
			return
		}
		if c.Spec.ActionErrorNode != "" {
			if sd.To.NodeName != c.Spec.ActionErrorNode {
				v.Failf("stride %d: the action at %q failed but the machine went to %q, not the designated node %q", i, sd.From.NodeName, sd.To.NodeName, c.Spec.ActionErrorNode)
				return
			}
			for _, k := range []string{"actionError", "error"} {
				if es, _ := sd.To.Bs[k].(string); es == "" {
					v.Failf("stride %d: bindings at the action-error node carry no %q text", i, k)
					return
				}
			}
			continue
		}
		if sd.To.NodeName != "error" {
			v.Failf("stride %d: the action at %q failed but the machine went to %q, not the error node", i, sd.From.NodeName, sd.To.NodeName)
			return
		}
		if es, _ := sd.To.Bs["error"].(string); es == "" {
			v.Failf("stride %d: error node bindings carry no error text", i)
			return
		}
		if ln, _ := sd.To.Bs["lastNode"].(string); ln != sd.From.NodeName {
			v.Failf("stride %d: lastNode is %v, expected %q", i, sd.To.Bs["lastNode"], sd.From.NodeName)
			return
		}
		lb, _ := jsongen.Normalize(sd.To.Bs["lastBindings"])
		lbm, _ := lb.(map[string]interface{})
		for k, want := range sd.From.Bs {
			if got, have := lbm[k]; !have || jsongen.Canon(got) != jsongen.Canon(want) {
				v.Failf("stride %d: lastBindings lacks %q=%s (has %s)", i, k, jsongen.Canon(want), jsongen.Canon(lb))
				return
			}
		}
	}
	return
}

func specSpins(a *sm.ASpec) bool {
	for _, n := range a.Nodes {
		if n.Action != nil && n.Action.Has("spin") {
			return true
		}
		for _, b := range n.Branches {
			if b.Guard != nil && b.Guard.Has("spin") {
				return true
			}
		}
	}
	return false
}

func TestC07Total(t *testing.T) {
	fatalProbe(t)
	ev.Run(t, ev.Opts{Property: "C07", Name: "total", Quick: 15000, Thorough: 800000, Journal: true,
		Rule: "spec documents (Go / JSON / YAML, structure-aware mutations: null nodes, branchings, branches, actions; wrong types; unknown targets, interpreters, syntaxes, branching types) x states (nil bindings, permanent keys, unknown node) x messages (incl. null) x control (nil, limit <= 0, breakpoints) x failing ECMAScript and native behaviours (throw, timeout, null, scalars, unserialisable emission, error with partial result) under a panic trap and watchdog; non-trivial = at least two failure dimensions combined"},
		genTotal, checkTotal)
}

// fatalProbe reports the listed finding (see fatalScripts) if the tree
// still has it.
func fatalProbe(t *testing.T) {
	f, known := ev.IsKnown("C07", fatalSignature)
	if !known || ev.Replaying() || ev.Shard() != 0 || os.Getenv("VERIF_C07_FATAL_SCRIPT") != "" {
		return
	}
	died, unclear := probeFatal()
	for _, u := range unclear {
		t.Logf("fatal-script probe inconclusive: %s", u)
	}
	if len(died) > 0 {
		fmt.Printf("KNOWN-FINDING: property=C07 %s: %s [%d of %d listed scripts still kill the process, e.g. %s; they are excluded from generation]\n", f.Signature, f.What, len(died), len(fatalScripts), died[0])
	}
}

func FuzzC07Total(f *testing.F) {
	ev.Fuzz(f, ev.Opts{Property: "C07", Name: "total", Journal: true}, genTotal, checkTotal)
}

// ---- the hosts' document loaders are total, too

type LoaderCase struct {
	Kind string      `json:"kind"` // json, yaml, empty, missing, garbage, directory, inline
	Doc  interface{} `json:"doc,omitempty"`
	Text string      `json:"text,omitempty"`
}

func genLoader(t *rapid.T) LoaderCase {
	c := LoaderCase{Kind: rapid.SampledFrom([]string{"json", "yaml", "empty", "missing", "garbage", "directory", "inline", "json", "yaml"}).Draw(t, "kind")}
	switch c.Kind {
	case "json", "yaml", "inline":
		a := sm.GenSpec(t, sm.SpecOpts{Fail: 2, Emit: true})
		js, _ := json.Marshal(a.Build())
		var doc map[string]interface{}
		json.Unmarshal(js, &doc)
		for i := rapid.IntRange(0, 2).Draw(t, "nmut"); i > 0; i-- {
			applyMut(doc, Mut{Kind: rapid.SampledFrom(mutKinds).Draw(t, fmt.Sprintf("mk%d", i)),
				Node: rapid.SampledFrom(a.NodeNames()).Draw(t, fmt.Sprintf("mn%d", i)), I: rapid.IntRange(0, 2).Draw(t, fmt.Sprintf("mi%d", i))}, false)
		}
		c.Doc = doc
	case "garbage":
		c.Text = rapid.SampledFrom([]string{"{", "}", "[1,2", "nodes: [", "\x00\x01", "{\"nodes\": 7}", "- a\n- b\n", "? x", "\t\t", "null", "42", "\"str\""}).Draw(t, "text")
	}
	return c
}

func checkLoader(c LoaderCase) (v ev.Verdict) {
	dir, err := os.MkdirTemp(os.Getenv("VERIF_WORK"), "c07load")
	if err != nil {
		v.Failf("tempdir: %v", err)
		return
	}
	defer os.RemoveAll(dir)
	var src interface{}
	path := filepath.Join(dir, "spec")
	switch c.Kind {
	case "json":
		js, _ := json.Marshal(c.Doc)
		os.WriteFile(path, js, 0644)
	case "yaml":
		ys, yerr := yaml.Marshal(c.Doc)
		if yerr != nil {
			v.Skip, v.SkipReason = true, "yaml-render"
			return
		}
		os.WriteFile(path, ys, 0644)
	case "empty":
		os.WriteFile(path, nil, 0644)
	case "garbage":
		os.WriteFile(path, []byte(c.Text), 0644)
	case "directory":
		os.Mkdir(path, 0755)
	case "missing":
	}
	if c.Kind == "inline" {
		src = map[string]interface{}{"inline": c.Doc}
	} else {
		src = map[string]interface{}{"url": "file://" + path}
	}
	var spec *core.Spec
	var rerr error
	if p := trap(func() { _, spec, rerr = sio.ResolveSpecSource(context.Background(), src) }); p != "" {
		v.Failf("sio.ResolveSpecSource panicked on a %s spec source: %s", c.Kind, p)
		return
	}
	v.Class("kind:" + c.Kind)
	if rerr != nil {
		v.Class("error")
	} else if spec != nil {
		v.Class("spec")
	}
	v.NonTrivial = true
	return
}

func TestC07Loaders(t *testing.T) {
	ev.Run(t, ev.Opts{Property: "C07", Name: "loaders", Quick: 1500, Thorough: 60000,
		Rule: "the sio host's spec loader (ResolveSpecSource: inline, file URL) on mutated JSON/YAML documents, empty, missing, garbage files and directories: a specification or an error, never a crash; every case is non-trivial"},
		genLoader, checkLoader)
}
