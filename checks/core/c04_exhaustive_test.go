package corecheck

import (
	"context"
	"fmt"
	"strings"
	"testing"

	"github.com/Comcast/sheens/core"
	"github.com/Comcast/sheens/match"
	"verif/lib/ev"
	"verif/lib/jsongen"
	"verif/lib/sm"
)

// Small-scope enumeration for C04.  A step is a function of the
// current node, the spec-level error settings, the state and the
// pending message, so instead of all three-node specs the check
// enumerates every configuration of ONE node (0-2 branches over a small
// vocabulary of patterns, guards, targets; 4 actions; 3 branching
// types) inside a fixed three-node frame, under every combination of
// error settings, 4 states and 3 pending messages.  Actions and guards
// are native renderings of the action language (an ECMAScript slice
// runs in the random sub-check).

var (
	exPatterns = []struct {
		has bool
		p   interface{}
	}{{false, nil}, {true, map[string]interface{}{}}, {true, map[string]interface{}{"a": 1.0}}, {true, map[string]interface{}{"a": "?x"}}}
	exGuards = []*sm.Prog{nil,
		{Ops: []sm.Op{{Op: "set", K: "y", V: 1.0}}},
		{Ops: []sm.Op{{Op: "returnNull"}}},
		{Ops: []sm.Op{{Op: "throw", V: "g"}}}}
	exTargets = []string{"start", "n1", "missing", "@t", "error"}
	exActions = []*sm.Prog{nil,
		{Ops: []sm.Op{{Op: "set", K: "a", V: 1.0}, {Op: "emit", V: "e"}}},
		{Ops: []sm.Op{{Op: "emit", V: "e"}, {Op: "throw", V: "a"}}},
		{Ops: []sm.Op{{Op: "returnNull"}}}}
	exTypes    = []string{"message", "bindings", ""}
	exErrNodes = []string{"", "n1", "missing"}
	exStates   = []map[string]interface{}{{}, {"a": 1.0, "t": "n1"}, {"a": 2.0, "cfg!": true}, {"t": 3.0, "?x": 1.0}}
	exPendings = []struct {
		has bool
		m   interface{}
	}{{false, nil}, {true, map[string]interface{}{"a": 1.0}}, {true, map[string]interface{}{"b": 2.0}}}
)

func exBranches() [][]sm.ABranch {
	var singles []sm.ABranch
	for _, p := range exPatterns {
		for _, g := range exGuards {
			for _, t := range exTargets {
				singles = append(singles, sm.ABranch{HasPattern: p.has, Pattern: p.p, Guard: g, GuardNative: true, Target: t})
			}
		}
	}
	lists := [][]sm.ABranch{{}}
	for _, b := range singles {
		lists = append(lists, []sm.ABranch{b})
	}
	for _, b1 := range singles {
		for _, b2 := range singles {
			lists = append(lists, []sm.ABranch{b1, b2})
		}
	}
	return lists
}

func TestC04Exhaustive(t *testing.T) {
	if ev.Replaying() {
		if _, ok := ev.ReplayFor("C04", "exhaustive"); !ok {
			t.Skip()
		}
	}
	r := ev.NewRec(ev.Opts{Property: "C04", Name: "exhaustive",
		Rule: "every configuration of one node (0-2 branches over 4 patterns x 4 guards x 5 targets; 4 actions; 3 branching types) in a fixed 3-node frame x 2x3 error settings x 4 states x 3 pending messages, native actions/guards; Spec.Step vs the step model (quick: a seed-selected 1/8 slice of the node configurations); non-trivial = the model's route involves an action, a guard, a later branch or all branches tried"})
	defer r.Finish(t)
	if raw, ok := ev.ReplayFor("C04", "exhaustive"); ok {
		var c StepCase
		if err := jsonUnmarshalCore(raw, &c); err != nil {
			t.Fatal(err)
		}
		v := checkStep(c)
		if !r.Eval(c, v) {
			t.Errorf("replay: %s", v.Err)
		}
		return
	}
	lists := exBranches()
	stride := 8
	if ev.Tier() == "thorough" {
		stride = 1
		r.SetExhaustive()
	}
	off := ev.Seed() % stride
	ns, sh := ev.NShards(), ev.Shard()
	r.Note("node_configurations", len(lists)*len(exActions)*len(exTypes))
	ctx := context.Background()
	n := 0
	for li, brs := range lists {
		for ai, act := range exActions {
			for ti, typ := range exTypes {
				n++
				if n%stride != off || (n/stride)%ns != sh {
					continue
				}
				for _, eb := range []bool{false, true} {
					for _, en := range exErrNodes {
						a := &sm.ASpec{Name: "ex", ActionErrorBranches: eb, ActionErrorNode: en, Nodes: map[string]*sm.ANode{
							"start": {Action: act, ActionNative: true, BranchType: typ, Branches: brs},
							"n1":    {NoBranching: true},
						}}
						spec, err := a.Compiled()
						if err != nil {
							t.Fatalf("frame does not compile: %v", err)
						}
						r.Requested(len(exStates) * len(exPendings))
						for si, bs := range exStates {
							for pi, pend := range exPendings {
								st := &core.State{NodeName: "start", Bs: match.Bindings(jsongen.CopyMap(bs))}
								var pending interface{}
								if pend.has {
									pending = jsongen.Copy(pend.m)
								}
								var stridev *core.Stride
								var serr error
								var v ev.Verdict
								if p := trap(func() { stridev, serr = spec.Step(ctx, st, pending, nil, nil) }); p != "" {
									v.Failf("Step panicked: %s", p)
								} else {
									got := sm.Observe(stridev, serr, pending)
									allowed := sm.RefStepTok(a, "start", bs, pending, sm.TokenFrom(stridev), sm.ErrorTextFrom(stridev))
									if ok, keys := sm.Allowed(got, allowed); !ok {
										v.Failf("gave %s; the documented rule allows %s", got.Key(), strings.Join(keys, " || "))
									} else {
										route := allowed[0].Route
										v.NonTrivial = strings.Contains(route, "later-branch") || strings.Contains(route, "guard") || strings.Contains(route, "action") || strings.Contains(route, "all-tried")
										v.Class("route:" + strings.Split(route, ":")[0])
									}
								}
								key := fmt.Sprintf("%d/%d/%d/%v/%s/%d/%d", li, ai, ti, eb, en, si, pi)
								if !r.Tally(key, v, func() interface{} {
									return StepCase{Spec: a, Node: "start", Bs: bs, HasPending: pend.has, Pending: pend.m}
								}) {
									t.Errorf("node configuration %s: %s", key, v.Err)
									return
								}
							}
						}
					}
				}
			}
		}
	}
}
