package corecheck

import (
	"context"
	"encoding/json"
	"fmt"
	"math"
	"reflect"
	"sort"
	"strings"
	"testing"

	"github.com/Comcast/sheens/core"
	"github.com/Comcast/sheens/match"
	"pgregory.net/rapid"
	"verif/lib/ev"
	"verif/lib/jsongen"
	"verif/lib/sm"
)

type BreakSpec struct {
	Kind string `json:"kind"` // "", "node", "calls", "binding"
	Node string `json:"node,omitempty"`
	K    int    `json:"k,omitempty"`
	Key  string `json:"key,omitempty"`
}

type WalkCase struct {
	Spec     *sm.ASpec              `json:"spec"`
	Node     string                 `json:"node"`
	Bs       map[string]interface{} `json:"bs"`
	Messages []interface{}          `json:"messages"`
	Limit    int                    `json:"limit"`
	Break    BreakSpec              `json:"break"`
	Cuts     []int                  `json:"cuts,omitempty"` // split positions (ascending, within 1..len-1)
	UseStep  bool                   `json:"useStep,omitempty"`
	// Unserialisable: the state also holds a value JSON cannot express
	// (+Inf), under this key (C06 only)
	Unserialisable string `json:"unserialisable,omitempty"`
	// IntNumbers: the whole numbers of the state and of the messages are
	// Go integers (a Go host built them), not the float64 of JSON (C06 only)
	IntNumbers bool `json:"intNumbers,omitempty"`
	// Repeat (C05 only): the batch is the listed messages this many times
	// over - walks of thousands of steps under a limit to match
	Repeat int `json:"repeat,omitempty"`
}

func genWalkWith(t *rapid.T, o sm.SpecOpts) WalkCase {
	var a *sm.ASpec
	if o.Lively {
		a = sm.GenLivelySpec(t, o)
	} else {
		a = sm.GenSpec(t, o)
	}
	c := WalkCase{Spec: a}
	c.Node = rapid.SampledFrom(a.NodeNames()).Draw(t, "at")
	if rapid.IntRange(0, 15).Draw(t, "odd") == 0 {
		c.Node = rapid.SampledFrom([]string{"unknown", "error"}).Draw(t, "oddat")
	}
	c.Bs = sm.GenBindings(t, "bs")
	n := rapid.IntRange(0, 6).Draw(t, "nm")
	for i := 0; i < n; i++ {
		c.Messages = append(c.Messages, sm.GenMessageFor(t, a, fmt.Sprintf("m%d", i)))
	}
	c.Limit = rapid.SampledFrom([]int{0, 1, 2, 3, 5, 8, 100, 100, 100, 100}).Draw(t, "limit")
	switch rapid.IntRange(0, 9).Draw(t, "bk") {
	case 0:
		c.Break = BreakSpec{Kind: "node", Node: rapid.SampledFrom(a.NodeNames()).Draw(t, "bn")}
	case 1:
		c.Break = BreakSpec{Kind: "calls", K: rapid.IntRange(0, 4).Draw(t, "bc")}
	case 2:
		c.Break = BreakSpec{Kind: "binding", Key: rapid.SampledFrom([]string{"x", "n", "?x", "actionError"}).Draw(t, "bb")}
	}
	for i := 1; i < n; i++ {
		if rapid.IntRange(0, 2).Draw(t, fmt.Sprintf("cut%d", i)) == 0 {
			c.Cuts = append(c.Cuts, i)
		}
	}
	return c
}

func (c WalkCase) control() *core.Control {
	ctl := &core.Control{Limit: c.Limit}
	switch c.Break.Kind {
	case "node":
		ctl.Breakpoints = map[string]core.Breakpoint{"b": func(_ context.Context, st *core.State) bool { return st.NodeName == c.Break.Node }}
	case "calls":
		calls := 0
		ctl.Breakpoints = map[string]core.Breakpoint{"b": func(_ context.Context, st *core.State) bool { calls++; return calls > c.Break.K }}
	case "binding":
		ctl.Breakpoints = map[string]core.Breakpoint{"b": func(_ context.Context, st *core.State) bool { _, have := st.Bs[c.Break.Key]; return have }}
	}
	return ctl
}

func canonState(st *core.State) string {
	if st == nil {
		return "nil"
	}
	return st.NodeName + " " + jsongen.Canon(map[string]interface{}(st.Bs))
}

func copyMsgs(ms []interface{}) []interface{} {
	out := make([]interface{}, len(ms))
	for i, m := range ms {
		out[i] = jsongen.Copy(m)
	}
	return out
}

func emittedOf(w *core.Walked) []string {
	var out []string
	w.DoEmitted(func(x interface{}) error { out = append(out, jsongen.Canon(x)); return nil })
	return out
}

// ---------------------------------------------------------------- C05

func genWalk(t *rapid.T) WalkCase {
	// (an interior value: rapid draws the ends of a range far more often)
	if rapid.IntRange(0, 199).Draw(t, "long") == 137 {
		return genLongWalk(t)
	}
	return genWalkWith(t, sm.SpecOpts{Deterministic: true, NativeToo: true, Fail: 2, GuardFail: 1, Emit: true, UserErrorNode: true, ArrayVar: true, Ext: true, Lively: rapid.IntRange(0, 3).Draw(t, "lively") > 0})
}

// genLongWalk: walks of hundreds to thousands of steps under a limit to
// match.  The machine is built for it - a counter whose bindings stay
// small (a generated machine whose bindings grow makes every step dearer
// than the one before): a message node, then 1-3 action nodes that count,
// emit and come back.
func genLongWalk(t *rapid.T) WalkCase {
	a := &sm.ASpec{Name: "long", Nodes: map[string]*sm.ANode{}}
	chain := rapid.IntRange(1, 3).Draw(t, "chain")
	a.Nodes["start"] = &sm.ANode{BranchType: "message", Branches: []sm.ABranch{
		{HasPattern: true, Pattern: map[string]interface{}{"a": "?x"}, Target: "a1"},
		{HasPattern: true, Pattern: map[string]interface{}{"skip": true}, Target: "start"}}}
	for i := 1; i <= chain; i++ {
		next := "start"
		if i < chain {
			next = fmt.Sprintf("a%d", i+1)
		}
		ops := []sm.Op{{Op: "inc", K: "n"}}
		if rapid.Bool().Draw(t, fmt.Sprintf("emits%d", i)) {
			ops = append(ops, sm.Op{Op: "emitOf", K: "n"}, sm.Op{Op: "emitOf", K: "?x"})
		}
		if i == chain {
			ops = append(ops, sm.Op{Op: "del", K: "?x"})
		}
		a.Nodes[fmt.Sprintf("a%d", i)] = &sm.ANode{Action: &sm.Prog{Ops: ops}, ActionNative: rapid.Bool().Draw(t, fmt.Sprintf("native%d", i)),
			BranchType: "bindings", Branches: []sm.ABranch{{Target: next}}}
	}
	c := WalkCase{Spec: a, Node: "start", Bs: map[string]interface{}{"n": 0.0}}
	for i := rapid.IntRange(1, 6).Draw(t, "nm"); i > 0; i-- {
		c.Messages = append(c.Messages, rapid.SampledFrom([]interface{}{
			map[string]interface{}{"a": 1.0}, map[string]interface{}{"a": "b"}, map[string]interface{}{"skip": true}, map[string]interface{}{"other": 1.0},
		}).Draw(t, fmt.Sprintf("m%d", i)))
	}
	c.Repeat = rapid.SampledFrom([]int{100, 200, 400}).Draw(t, "repeat")
	c.Limit = rapid.SampledFrom([]int{700, 1500, 4000, 20000}).Draw(t, "longLimit")
	if total := len(c.Messages) * c.Repeat; total > 2 {
		seen := map[int]bool{}
		for i := rapid.IntRange(0, 3).Draw(t, "ncuts"); i > 0; i-- {
			if at := rapid.IntRange(1, total-1).Draw(t, fmt.Sprintf("cut%d", i)); !seen[at] {
				seen[at] = true
				c.Cuts = append(c.Cuts, at)
			}
		}
		sort.Ints(c.Cuts)
	}
	return c
}

func checkWalk(c WalkCase) (v ev.Verdict) {
	spec, err := c.Spec.Compiled()
	if err != nil {
		v.Failf("spec does not compile: %v", err)
		return
	}
	if c.Repeat > 1 {
		once := c.Messages
		c.Messages = nil
		for i := 0; i < c.Repeat; i++ {
			c.Messages = append(c.Messages, once...)
		}
		v.Class("long-walk")
	}
	ctx := context.Background()
	start := &core.State{NodeName: c.Node, Bs: match.Bindings(jsongen.CopyMap(c.Bs))}
	var w *core.Walked
	var werr error
	// the host's batch: the very slice that is later walked again in
	// pieces (a host shows one batch to several machines, or retries)
	given := copyMsgs(c.Messages)
	if p := trap(func() { w, werr = spec.Walk(ctx, start, given, c.control(), nil) }); p != "" {
		v.Skip, v.SkipReason = true, "panic(C07)"
		return
	}
	if werr != nil || w == nil {
		v.Failf("Walk returned an error: %v", werr)
		return
	}
	v.Class("stopped:" + w.StoppedBecause.String())
	// (b) step bound
	if len(w.Strides) > c.Limit {
		v.Failf("%d strides with limit %d", len(w.Strides), c.Limit)
		return
	}
	// (a) ordered exactly-once consumption
	k := 0
	actions := 0
	for i, s := range w.Strides {
		if s.Consumed != nil {
			if k >= len(c.Messages) {
				v.Failf("stride %d consumed a message although all %d were consumed already", i, len(c.Messages))
				return
			}
			if jsongen.Canon(s.Consumed) != jsongen.Canon(c.Messages[k]) {
				v.Failf("stride %d consumed %s, but the next message in order is #%d %s", i, jsongen.Canon(s.Consumed), k, jsongen.Canon(c.Messages[k]))
				return
			}
			k++
		}
		if s.From != nil {
			if n, have := c.Spec.Nodes[s.From.NodeName]; have && n.Action != nil {
				actions++
			}
		}
	}
	// (c) truthful remainder
	switch w.StoppedBecause {
	case core.Limited, core.BreakpointReached:
		if len(w.Remaining) != len(c.Messages)-k {
			v.Failf("stopped (%s) after consuming %d of %d messages but reports %d remaining", w.StoppedBecause, k, len(c.Messages), len(w.Remaining))
			return
		}
		for i, m := range w.Remaining {
			if jsongen.Canon(m) != jsongen.Canon(c.Messages[k+i]) {
				v.Failf("remaining[%d] is %s, expected message #%d %s", i, jsongen.Canon(m), k+i, jsongen.Canon(c.Messages[k+i]))
				return
			}
		}
	case core.Done:
	default:
		v.Failf("unexpected stop reason %v", w.StoppedBecause)
		return
	}
	// (d) chaining, and each stride against the step rule
	cur := &core.State{NodeName: c.Node, Bs: match.Bindings(jsongen.CopyMap(c.Bs))}
	next := 0
	for i, s := range w.Strides {
		if s.From == nil {
			v.Failf("stride %d has no From", i)
			return
		}
		if canonState(s.From) != canonState(cur) {
			v.Failf("stride %d starts from %s but the previous step produced %s", i, canonState(s.From), canonState(cur))
			return
		}
		var pending interface{}
		if next < len(c.Messages) {
			pending = c.Messages[next]
		}
		allowed := sm.RefStepTok(c.Spec, cur.NodeName, map[string]interface{}(cur.Bs), pending, sm.TokenFrom(s), sm.ErrorTextFrom(s))
		anyErr, errConsumes, errKeeps := false, false, false
		for _, al := range allowed {
			if al.Err {
				anyErr = true
				if al.Consumed {
					errConsumes = true
				} else {
					errKeeps = true
				}
			}
		}
		got := sm.Observe(s, nil, pending)
		if ok, keys := sm.Allowed(got, allowed); !ok {
			if !anyErr {
				v.Failf("stride %d at %q gave %s; the step rule allows %s", i, cur.NodeName, got.Key(), strings.Join(keys, " || "))
				return
			}
			// an error from the step becomes a transition to the error node
			v.Class("error-transition")
			// a step that fails while trying message branches has still
			// consumed the message; one that fails before that has not
			if errConsumes && !errKeeps && s.Consumed == nil {
				v.Failf("stride %d at %q: trying the message branches failed (%s) and the pending message was not consumed", i, cur.NodeName, allowed[0].Route)
				return
			}
			if errKeeps && !errConsumes && s.Consumed != nil {
				v.Failf("stride %d at %q: the step failed before any message branching (%s) and yet a message was consumed", i, cur.NodeName, allowed[0].Route)
				return
			}
			if errConsumes {
				v.Class("error-transition-consumed")
			}
			if cur.NodeName == "error" {
				if s.To != nil {
					v.Failf("stride %d: a failing step at the error node must stay put, went to %s", i, canonState(s.To))
					return
				}
			} else {
				if s.To == nil || s.To.NodeName != "error" {
					v.Failf("stride %d: the step at %q fails (%s) but the walk went to %s instead of the error node (allowed: %s)", i, cur.NodeName, allowed[0].Route, canonState(s.To), strings.Join(keys, " || "))
					return
				}
				if es, _ := s.To.Bs["error"].(string); es == "" {
					v.Failf("stride %d: error node bindings carry no error text", i)
					return
				}
				if ln, _ := s.To.Bs["lastNode"].(string); ln != cur.NodeName {
					v.Failf("stride %d: lastNode is %v, expected %q", i, s.To.Bs["lastNode"], cur.NodeName)
					return
				}
				lb, _ := jsongen.Normalize(s.To.Bs["lastBindings"])
				lbm, _ := lb.(map[string]interface{})
				for k, want := range cur.Bs {
					if k == "error" || k == "actionError" {
						continue
					}
					if got, have := lbm[k]; !have || jsongen.Canon(got) != jsongen.Canon(want) {
						v.Failf("stride %d: lastBindings lacks %q=%s (has %s)", i, k, jsongen.Canon(want), jsongen.Canon(lb))
						return
					}
				}
			}
		}
		if s.Consumed != nil {
			next++
		}
		if s.To != nil {
			cur = s.To.Copy()
		}
	}
	final := cur
	// (e) completion means quiescence and nothing dropped at a consuming node
	if w.StoppedBecause == core.Done {
		var st2 *core.Stride
		var e2 error
		if p := trap(func() {
			st2, e2 = spec.Step(ctx, &core.State{NodeName: final.NodeName, Bs: final.Bs.Copy()}, nil, c.control(), nil)
		}); p != "" {
			v.Skip, v.SkipReason = true, "panic(C07)"
			return
		}
		if e2 == nil && st2 != nil && st2.To != nil {
			v.Failf("walk reported Done at %s but a further step without a message goes to %s", canonState(final), canonState(st2.To))
			return
		}
		if e2 != nil && final.NodeName != "error" {
			v.Failf("walk reported Done at %s but a further step fails: %v", canonState(final), e2)
			return
		}
		if k < len(c.Messages) {
			v.Class("dropped-at-terminal")
			if n, have := c.Spec.Nodes[final.NodeName]; have && !n.NoBranching && n.BranchType == "message" {
				v.Failf("walk reported Done with %d message(s) neither consumed nor remaining while at message node %q", len(c.Messages)-k, final.NodeName)
				return
			}
		}
	}
	// (f) split equivalence
	if w.StoppedBecause == core.Done && len(w.Strides) < c.Limit && c.Break.Kind == "" && len(c.Cuts) > 0 {
		st := &core.State{NodeName: c.Node, Bs: match.Bindings(jsongen.CopyMap(c.Bs))}
		var emitted []string
		comparable := true
		bounds := append(append([]int{0}, c.Cuts...), len(c.Messages))
		for bi := 0; bi+1 < len(bounds); bi++ {
			batch := given[bounds[bi]:bounds[bi+1]:bounds[bi+1]]
			var wb *core.Walked
			if p := trap(func() { wb, _ = spec.Walk(ctx, st, batch, &core.Control{Limit: c.Limit}, nil) }); p != "" || wb == nil {
				v.Skip, v.SkipReason = true, "panic(C07)"
				return
			}
			if wb.StoppedBecause != core.Done || len(wb.Strides) >= c.Limit {
				comparable = false
				break
			}
			emitted = append(emitted, emittedOf(wb)...)
			if to := wb.To(); to != nil {
				st = to
			}
		}
		if comparable {
			v.Class("split-compared")
			if scrubbedState(st) != scrubbedState(final) {
				v.Failf("delivering the messages in batches %v ends at %s, all at once at %s", bounds, canonState(st), canonState(final))
				return
			}
			if fmt.Sprint(emitted) != fmt.Sprint(emittedOf(w)) {
				v.Failf("delivering the messages in batches %v emits %v, all at once %v", bounds, emitted, emittedOf(w))
				return
			}
		}
	}
	if k >= 2 {
		v.Class("consumed>=2")
	}
	v.NonTrivial = k >= 2 && actions >= 1 || (k >= 1 && w.StoppedBecause != core.Done)
	return
}

func TestC05Walk(t *testing.T) {
	ev.Run(t, ev.Opts{Property: "C05", Name: "walk", Quick: 15000, Thorough: 800000,
		Rule: "deterministic generated specs (cyclic ones included) x start state x 0-6 non-null messages x limit x breakpoint x split; invariants on the Walked (ordered exactly-once consumption, step bound, truthful remainder, chaining, each stride allowed by the step rule, quiescence on Done, nothing dropped at a consuming node) and batch-split equivalence; non-trivial = >= 2 messages consumed and >= 1 action executed, or >= 1 consumed and stopped by limit/breakpoint"},
		genWalk, checkWalk)
}

// ---------------------------------------------------------------- C06

func genHold(t *rapid.T) WalkCase {
	c := genWalkWith(t, sm.SpecOpts{Deterministic: true, NativeToo: true, InPlace: true, Scribble: true, ArrayVar: true, Fail: 5, GuardFail: 3, Emit: true, UserErrorNode: true, PropsWrite: true, Lively: rapid.Bool().Draw(t, "lively")})
	c.UseStep = rapid.IntRange(0, 2).Draw(t, "useStep") == 0
	c.Cuts = nil
	if rapid.IntRange(0, 5).Draw(t, "inf") == 0 {
		c.Unserialisable = rapid.SampledFrom([]string{"inf", "x", "n"}).Draw(t, "infkey")
		// and something structured that a script may write into
		c.Bs[rapid.SampledFrom([]string{"y", "l", "cfg!"}).Draw(t, "nestkey")] = map[string]interface{}{"a": 1.0, "deep": map[string]interface{}{"b": []interface{}{1.0}}}
	}
	c.IntNumbers = rapid.IntRange(0, 4).Draw(t, "intNumbers") == 0
	// null messages in the batch (a host that passes on what it parsed)
	if len(c.Messages) > 1 && rapid.IntRange(0, 4).Draw(t, "nulls") == 2 {
		for i := range c.Messages {
			if i < len(c.Messages)-1 && rapid.IntRange(0, 2).Draw(t, fmt.Sprintf("null%d", i)) == 1 {
				c.Messages[i] = nil
			}
		}
	}
	return c
}

func specSnapshot(s *core.Spec) string {
	js, err := json.Marshal(s)
	if err != nil {
		return "unserialisable: " + err.Error()
	}
	var sb strings.Builder
	sb.Write(js)
	for _, name := range sortedNodeNames(s) {
		n := s.Nodes[name]
		fmt.Fprintf(&sb, "|%s:%p", name, n.Action)
		if n.Branches != nil {
			for i, b := range n.Branches.Branches {
				fmt.Fprintf(&sb, ",%d:%p:%s", i, b.Guard, jsongen.CanonTyped(b.Pattern))
			}
		}
	}
	return sb.String()
}

func sortedNodeNames(s *core.Spec) []string {
	m := map[string]interface{}{}
	for k := range s.Nodes {
		m[k] = nil
	}
	return jsongen.SortedKeys(m)
}

// scrubbedState is canonState modulo the wording of error messages.
func scrubbedState(st *core.State) string {
	if st == nil {
		return "nil"
	}
	return st.NodeName + " " + jsongen.Canon(sm.Scrub(map[string]interface{}(st.Bs)))
}

type walkObs struct {
	strides []string
	rem     string
	stopped string
	err     string
}

func observeWalk(w *core.Walked, err error) walkObs {
	o := walkObs{}
	if err != nil {
		o.err = "error"
	}
	if w == nil {
		return o
	}
	for _, s := range w.Strides {
		em := []interface{}{}
		if s.Events != nil {
			em = append(em, s.Events.Emitted...)
		}
		o.strides = append(o.strides, fmt.Sprintf("%s -> %s consumed=%s emitted=%s", scrubbedState(s.From), scrubbedState(s.To), jsongen.Canon(s.Consumed), jsongen.Canon(em)))
	}
	o.rem = jsongen.Canon(w.Remaining)
	o.stopped = w.StoppedBecause.String()
	return o
}

func (o walkObs) String() string {
	return strings.Join(o.strides, " ; ") + " | remaining " + o.rem + " | " + o.stopped + " " + o.err
}

func checkHold(c WalkCase) (v ev.Verdict) {
	spec, err := c.Spec.Compiled()
	if err != nil {
		v.Failf("spec does not compile: %v", err)
		return
	}
	ctx := context.Background()
	st := &core.State{NodeName: c.Node, Bs: match.Bindings(jsongen.CopyMap(c.Bs))}
	if c.Unserialisable != "" {
		st.Bs[c.Unserialisable] = math.Inf(1)
		v.Class("unserialisable-binding")
	}
	msgs := copyMsgs(c.Messages)
	if c.IntNumbers {
		n := 0
		st.Bs = match.Bindings(jsongen.Intify(map[string]interface{}(st.Bs), &n).(map[string]interface{}))
		msgs = jsongen.Intify(msgs, &n).([]interface{})
		if n > 0 {
			v.Class("go-integers")
		}
	}
	// step properties, with one map reachable by several paths (a host
	// that puts the same configuration under two names)
	shared := map[string]interface{}{"k": 1.0, "arr": []interface{}{1.0}}
	props := core.StepProps{"p": map[string]interface{}{"nested": []interface{}{1.0, 2.0}}, "q": "s",
		"s1": shared, "s2": shared, "lst": []interface{}{shared, shared}}
	ctl := &core.Control{Limit: c.Limit}
	if c.Break.Kind == "node" || c.Break.Kind == "binding" {
		ctl = c.control()
	}
	snap := func() []string {
		return []string{
			st.NodeName + " " + jsongen.CanonTyped(map[string]interface{}(st.Bs)),
			jsongen.CanonTyped(msgs),
			specSnapshot(spec),
			fmt.Sprintf("%d/%d", ctl.Limit, len(ctl.Breakpoints)),
			jsongen.CanonTyped(map[string]interface{}(props)),
		}
	}
	names := []string{"state", "messages", "specification", "control", "step properties"}
	before := snap()
	changed := func(when string) bool {
		after := snap()
		for i := range before {
			if before[i] != after[i] {
				v.Failf("%s: the %s given to the engine changed:\n before %s\n after  %s", when, names[i], ev.Trunc(before[i], 600), ev.Trunc(after[i], 600))
				return true
			}
		}
		return false
	}
	run := func() (walkObs, []*core.State, string) {
		var states []*core.State
		if c.UseStep {
			var pending interface{}
			if len(msgs) > 0 {
				pending = msgs[0]
			}
			var s *core.Stride
			var e error
			if p := trap(func() { s, e = spec.Step(ctx, st, pending, ctl, props) }); p != "" {
				return walkObs{}, nil, p
			}
			w := &core.Walked{}
			if s != nil {
				w.Strides = []*core.Stride{s}
				states = append(states, s.From, s.To)
			}
			return observeWalk(w, e), states, ""
		}
		var w *core.Walked
		var e error
		if p := trap(func() { w, e = spec.Walk(ctx, st, msgs, ctl, props) }); p != "" {
			return walkObs{}, nil, p
		}
		if w != nil {
			for _, s := range w.Strides {
				states = append(states, s.From, s.To)
			}
			states = append(states, w.To(), w.From())
		}
		return observeWalk(w, e), states, ""
	}
	o1, states, p := run()
	if p != "" {
		v.Skip, v.SkipReason = true, "panic(C07)"
		return
	}
	if changed("after the call") {
		return
	}
	// returned states must not share a bindings map with the input:
	// neither as their own bindings nor anywhere inside them (the
	// diagnostics of an error transition hold "the bindings at that
	// point" - a copy of them)
	if st.Bs != nil {
		given := reflect.ValueOf(st.Bs).Pointer()
		for i, s := range states {
			if s == nil || s.Bs == nil {
				continue
			}
			if where := holdsMap(map[string]interface{}(s.Bs), given, "bindings"); where != "" {
				v.Failf("returned state %d holds the very bindings map that was given to the call, at %s", i, where)
				return
			}
		}
	}
	for i, s := range states {
		if s == nil || s.Bs == nil {
			continue
		}
		s.Bs["\x00sentinel"] = i
	}
	if changed("after writing into the returned states' bindings (shared map)") {
		return
	}
	o2, _, p := run()
	if p != "" {
		v.Skip, v.SkipReason = true, "panic(C07)"
		return
	}
	if changed("after the second call") {
		return
	}
	if o1.String() != o2.String() {
		v.Failf("two identical calls differ:\n first  %s\n second %s", ev.Trunc(o1.String(), 900), ev.Trunc(o2.String(), 900))
		return
	}
	s := o1.String()
	if strings.Contains(s, "actionError") {
		v.Class("action-failed")
	}
	if strings.Contains(s, "-> error ") {
		v.Class("error-node")
	}
	if o1.stopped == "Limited" {
		v.Class("limited")
	}
	if o1.err != "" {
		v.Class("error-returned")
	}
	if c.UseStep {
		v.Class("step")
	} else {
		v.Class("walk")
	}
	inplace := false
	for _, n := range c.Spec.Nodes {
		if n.InPlace && n.Action != nil {
			inplace = true
		}
	}
	if inplace {
		v.Class("in-place-native-action")
	}
	v.NonTrivial = strings.Contains(s, "actionError") || strings.Contains(s, "-> error ") || o1.stopped == "Limited" || o1.err != "" || inplace
	return
}

// holdsMap reports where (if anywhere) inside v the map with the given
// address occurs.
func holdsMap(v interface{}, addr uintptr, path string) string {
	switch vv := v.(type) {
	case match.Bindings:
		return holdsMap(map[string]interface{}(vv), addr, path)
	case map[string]interface{}:
		if vv != nil && reflect.ValueOf(vv).Pointer() == addr {
			return path
		}
		for k, x := range vv {
			if w := holdsMap(x, addr, path+"."+k); w != "" {
				return w
			}
		}
	case []interface{}:
		for i, x := range vv {
			if w := holdsMap(x, addr, fmt.Sprintf("%s[%d]", path, i)); w != "" {
				return w
			}
		}
	}
	return ""
}

func TestC06Hold(t *testing.T) {
	ev.Run(t, ev.Opts{Property: "C06", Name: "hold", Quick: 15000, Thorough: 800000,
		Rule: "deterministic generated specs weighted towards failing actions/guards, in-place native actions, limits x states x messages; typed deep snapshots of state, messages, spec, control and props before/after Step/Walk, sentinel writes into every returned state's bindings, and two identical calls compared; non-trivial = an action failed, the error node was reached, the limit was hit, an error was returned or a native action writes into the map it is given"},
		genHold, checkHold)
}
