package corecheck

import (
	"context"
	"encoding/json"
	"fmt"
	"strings"
	"testing"

	"github.com/Comcast/sheens/core"
	"github.com/Comcast/sheens/match"
	"pgregory.net/rapid"
	"verif/lib/ev"
	"verif/lib/jsongen"
	"verif/lib/sm"
)

// ---------------------------------------------------------------- C09

type PlainDataCase struct {
	Spec     *sm.ASpec              `json:"spec"`
	Node     string                 `json:"node"`
	Bs       map[string]interface{} `json:"bs"`
	Messages []interface{}          `json:"messages"`
	Mask     []bool                 `json:"mask"` // mask[i]: serialise the state after message i
}

func genPlainData(t *rapid.T) PlainDataCase {
	vo := jsongen.Opts{Depth: 2, Width: 3, Strs: []string{"a", "b", "n1", "start"}, Nums: []float64{0, 1, 2, 3, 0.5, -1, 1e9, 2.5}, Keys: []string{"a", "b", "c"}}
	_ = vo
	o := sm.SpecOpts{Deterministic: true, NativeToo: rapid.IntRange(0, 3).Draw(t, "nat") == 0, Fail: 2, GuardFail: 1, Emit: true, UserErrorNode: true, Derive: true, ArrayVar: true, IneqBound: true, Ext: true}
	a := sm.GenLivelySpec(t, o)
	c := PlainDataCase{Spec: a, Node: rapid.SampledFrom(a.NodeNames()).Draw(t, "at"), Bs: sm.GenBindings(t, "bs")}
	if rapid.IntRange(0, 2).Draw(t, "arrobj") == 0 {
		// an array of objects: scripts may write into its elements
		c.Bs[rapid.SampledFrom([]string{"x", "y", "l"}).Draw(t, "arrobjk")] = []interface{}{map[string]interface{}{"a": 1.0}, map[string]interface{}{"b": []interface{}{2.0}}}
	}
	n := rapid.IntRange(1, 8).Draw(t, "nm")
	for i := 0; i < n; i++ {
		c.Messages = append(c.Messages, sm.GenMessageFor(t, a, fmt.Sprintf("m%d", i)))
		c.Mask = append(c.Mask, rapid.Bool().Draw(t, fmt.Sprintf("save%d", i)))
	}
	return c
}

func roundTrip(st *core.State) (*core.State, error) {
	js, err := json.Marshal(st)
	if err != nil {
		return nil, err
	}
	var out core.State
	if err := json.Unmarshal(js, &out); err != nil {
		return nil, err
	}
	if out.Bs == nil {
		out.Bs = match.NewBindings()
	}
	return &out, nil
}

type runTrace struct {
	steps  []string
	nodes  []string
	intArr bool
}

// hasNumberInContainer reports whether a number sits inside an array
// or a nested object of the bindings.
func hasNumberInContainer(v interface{}, depth int) bool {
	switch vv := v.(type) {
	case map[string]interface{}:
		for _, x := range vv {
			if hasNumberInContainer(x, depth+1) {
				return true
			}
		}
	case match.Bindings:
		return hasNumberInContainer(map[string]interface{}(vv), depth)
	case []interface{}:
		for _, x := range vv {
			if hasNumberInContainer(x, depth+2) {
				return true
			}
		}
	case float64, int64, int:
		return depth >= 2
	}
	return false
}

func runHistory(spec *core.Spec, c PlainDataCase, mask []bool) (tr runTrace, panicked string) {
	st := &core.State{NodeName: c.Node, Bs: match.Bindings(jsongen.CopyMap(c.Bs))}
	ctl := &core.Control{Limit: 30}
	for i, m := range c.Messages {
		var w *core.Walked
		var err error
		if p := trap(func() { w, err = spec.Walk(context.Background(), st, []interface{}{jsongen.Copy(m)}, ctl, nil) }); p != "" {
			return tr, p
		}
		if err != nil || w == nil {
			tr.steps = append(tr.steps, "walk error")
			return tr, ""
		}
		if to := w.To(); to != nil {
			st = to
		}
		tr.steps = append(tr.steps, fmt.Sprintf("%s emitted=%v stopped=%s", scrubbedState(st), emittedOf(w), w.StoppedBecause))
		tr.nodes = append(tr.nodes, st.NodeName)
		if hasNumberInContainer(st.Bs, 0) {
			tr.intArr = true
		}
		if mask != nil && mask[i] {
			rt, err := roundTrip(st)
			if err != nil {
				tr.steps = append(tr.steps, "state not serialisable: "+err.Error())
				return tr, ""
			}
			st = rt
		}
	}
	return tr, ""
}

func checkPlainData(c PlainDataCase) (v ev.Verdict) {
	spec, err := c.Spec.Compiled()
	if err != nil {
		v.Failf("spec does not compile: %v", err)
		return
	}
	mem, p := runHistory(spec, c, nil)
	if p != "" {
		v.Skip, v.SkipReason = true, "panic(C07)"
		return
	}
	all := make([]bool, len(c.Messages))
	for i := range all {
		all[i] = true
	}
	for name, mask := range map[string][]bool{"drawn": c.Mask, "every boundary": all} {
		got, p := runHistory(spec, c, mask)
		if p != "" {
			v.Skip, v.SkipReason = true, "panic(C07)"
			return
		}
		for i := range mem.steps {
			if i >= len(got.steps) || got.steps[i] != mem.steps[i] {
				g := "(nothing)"
				if i < len(got.steps) {
					g = got.steps[i]
				}
				v.Failf("persisting and reloading the state (%s mask %v) changes behaviour at message %d:\n in memory: %s\n reloaded:  %s", name, mask, i, mem.steps[i], g)
				return
			}
		}
	}
	saves := 0
	for _, b := range c.Mask {
		if b {
			saves++
		}
	}
	atError := false
	for _, n := range mem.nodes {
		if n == "error" {
			atError = true
		}
	}
	if atError {
		v.Class("error-node-state-saved")
	}
	if mem.intArr {
		v.Class("number-in-container")
	}
	moved := map[string]bool{}
	for _, n := range mem.nodes {
		moved[n] = true
	}
	v.NonTrivial = saves > 0 && len(moved) >= 2 && (mem.intArr || atError)
	if strings.Contains(strings.Join(mem.steps, " "), "lastBindings") {
		v.Class("diagnostic-bindings")
	}
	return
}

func TestC09PlainData(t *testing.T) {
	ev.Run(t, ev.Opts{Property: "C09", Name: "plaindata", Quick: 8000, Thorough: 400000,
		Rule: "lively deterministic specs whose actions produce numbers inside arrays/objects, nulls and fractions and whose later branch patterns inspect those values (derived patterns), user error nodes that branch on lastNode/lastBindings; 1-8 messages; run in memory vs. with the state passed through JSON at a drawn mask of message boundaries and at every boundary; non-trivial = >= 1 save point, the machine moved, and a state held a number inside a container or sat at the error node"},
		genPlainData, checkPlainData)
}
