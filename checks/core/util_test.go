package corecheck

import "encoding/json"

func jsonUnmarshalCore(raw []byte, x interface{}) error { return json.Unmarshal(raw, x) }
