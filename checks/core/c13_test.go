package corecheck

import (
	"context"
	"encoding/json"
	"fmt"
	"os"
	"path/filepath"
	"sort"
	"strings"
	"testing"

	"github.com/Comcast/sheens/core"
	"github.com/Comcast/sheens/crew"
	"github.com/Comcast/sheens/interpreters"
	"github.com/Comcast/sheens/match"
	"github.com/Comcast/sheens/sio"
	"github.com/Comcast/sheens/tools"
	"github.com/jsccast/yaml"
	"pgregory.net/rapid"
	"verif/lib/ev"
	"verif/lib/jsongen"
	"verif/lib/sm"
)

// ---------------------------------------------------------------- C13

type Unknown struct {
	Kind string `json:"kind,omitempty"` // "", "interpreter", "guardInterpreter", "syntax", "branchType"
	Node string `json:"node,omitempty"`
	// Near: a near-miss spelling of the name that is there ("Message",
	// " ecmascript"): 1 title case, 2 upper case, 3 leading blank, 4
	// trailing blank.  Such a name must either be rejected at compile
	// time or mean exactly what the canonical spelling means.
	Near int `json:"near,omitempty"`
}

func nearMiss(name string, near int) string {
	switch near {
	case 1:
		if name == "" {
			return name
		}
		return strings.ToUpper(name[:1]) + name[1:]
	case 2:
		return strings.ToUpper(name)
	case 3:
		return " " + name
	case 4:
		return name + " "
	}
	return name
}

type ReprCase struct {
	Spec     *sm.ASpec              `json:"spec"`
	Node     string                 `json:"node"`
	Bs       map[string]interface{} `json:"bs"`
	Messages []interface{}          `json:"messages"`
	Unknown  Unknown                `json:"unknown"`
}

var barePatterns = []interface{}{"a", "?x", "1", 1.0, true, "?", []interface{}{[]interface{}{1.0}, []interface{}{2.0}}, "b", "??o", []interface{}{}, "", " x"}

func genRepr(t *rapid.T) ReprCase {
	o := sm.SpecOpts{Deterministic: true, Fail: 2, GuardFail: 1, Emit: true, UserErrorNode: true, Derive: true, ArrayVar: true, IneqBound: true}
	var a *sm.ASpec
	if rapid.IntRange(0, 3).Draw(t, "lively") > 0 {
		a = sm.GenLivelySpec(t, o)
	} else {
		a = sm.GenSpec(t, o)
	}
	// patterns of every JSON shape
	for _, name := range a.NodeNames() {
		n := a.Nodes[name]
		if n.BranchType != "message" {
			// a bare variable under bindings branching would bind the
			// whole bindings (variable-named keys included) and re-use
			// them as a pattern: outside the matcher's supported fragment
			continue
		}
		for bi := range n.Branches {
			if n.Branches[bi].HasPattern && rapid.IntRange(0, 4).Draw(t, fmt.Sprintf("bare.%s.%d", name, bi)) == 0 {
				n.Branches[bi].Pattern = jsongen.Copy(rapid.SampledFrom(barePatterns).Draw(t, fmt.Sprintf("barev.%s.%d", name, bi)))
			}
		}
	}
	c := ReprCase{Spec: a, Node: rapid.SampledFrom(a.NodeNames()).Draw(t, "at"), Bs: sm.GenBindings(t, "bs")}
	for i := rapid.IntRange(1, 5).Draw(t, "nm"); i > 0; i-- {
		if rapid.IntRange(0, 4).Draw(t, fmt.Sprintf("sc%d", i)) == 0 {
			c.Messages = append(c.Messages, rapid.SampledFrom([]interface{}{"a", "b", "1", 1.0, true, "?x"}).Draw(t, fmt.Sprintf("scv%d", i)))
		} else {
			c.Messages = append(c.Messages, sm.GenMessageFor(t, a, fmt.Sprintf("m%d", i)))
		}
	}
	if rapid.IntRange(0, 5).Draw(t, "unk") == 0 {
		c.Unknown = Unknown{Kind: rapid.SampledFrom([]string{"interpreter", "guardInterpreter", "syntax", "branchType", "malformedPattern"}).Draw(t, "unkk"),
			Node: rapid.SampledFrom(a.NodeNames()).Draw(t, "unkn")}
		if c.Unknown.Kind != "syntax" && c.Unknown.Kind != "malformedPattern" && rapid.Bool().Draw(t, "near") {
			c.Unknown.Near = rapid.IntRange(1, 4).Draw(t, "nearKind")
		}
	}
	return c
}

// applyUnknown places an unknown name at a used position; false if the
// spec offers no such position.
func applyUnknown(s *core.Spec, u Unknown) bool {
	n := s.Nodes[u.Node]
	switch u.Kind {
	case "interpreter":
		if n == nil || n.ActionSource == nil {
			return false
		}
		n.ActionSource.Interpreter = "cobol"
		if u.Near > 0 {
			n.ActionSource.Interpreter = nearMiss("ecmascript", u.Near)
		}
		return true
	case "guardInterpreter":
		if n == nil || n.Branches == nil {
			return false
		}
		for _, b := range n.Branches.Branches {
			if b.GuardSource != nil {
				b.GuardSource.Interpreter = "cobol"
				if u.Near > 0 {
					b.GuardSource.Interpreter = nearMiss("ecmascript", u.Near)
				}
				return true
			}
		}
		return false
	case "syntax":
		for _, n := range s.Nodes {
			if n.Branches != nil && len(n.Branches.Branches) > 0 {
				s.PatternSyntax = "xml"
				return true
			}
		}
		return false
	case "malformedPattern":
		// JSON pattern syntax and a pattern that is not JSON
		if n == nil || n.Branches == nil || len(n.Branches.Branches) == 0 {
			return false
		}
		s.PatternSyntax = "json"
		n.Branches.Branches[len(n.Branches.Branches)-1].Pattern = `{"a":`
		return true
	case "branchType":
		if n == nil || n.Branches == nil {
			return false
		}
		if u.Near > 0 {
			if n.Branches.Type == "" {
				return false
			}
			n.Branches.Type = nearMiss(n.Branches.Type, u.Near)
			return true
		}
		n.Branches.Type = "sideways"
		return true
	}
	return true
}

// jsonSyntax rewrites every pattern as JSON text.
func jsonSyntax(s *core.Spec) {
	s.PatternSyntax = "json"
	for _, n := range s.Nodes {
		if n.Branches == nil {
			continue
		}
		for _, b := range n.Branches.Branches {
			if b.Pattern != nil {
				js, _ := json.Marshal(b.Pattern)
				b.Pattern = string(js)
			}
		}
	}
}

type variant struct {
	name string
	spec *core.Spec
	err  error // load or compile error
}

func loadJSON(js []byte) (*core.Spec, error) {
	var s core.Spec
	if err := json.Unmarshal(js, &s); err != nil {
		return nil, err
	}
	return &s, nil
}

func loadYAML(ys []byte) (*core.Spec, error) {
	var s core.Spec
	if err := yaml.Unmarshal(ys, &s); err != nil {
		return nil, err
	}
	return &s, nil
}

func compileWith(s *core.Spec, ints core.Interpreters) error {
	return s.Compile(context.Background(), ints, true)
}

func workDir() string {
	d := os.Getenv("VERIF_WORK")
	if d == "" {
		d = os.TempDir()
	}
	return d
}

func buildVariants(c ReprCase, known map[string]bool) ([]variant, bool) {
	base := func() (*core.Spec, bool) {
		s := c.Spec.Build()
		ok := applyUnknown(s, c.Unknown)
		return s, ok
	}
	if _, ok := base(); !ok {
		return nil, false
	}
	ints := sm.Interpreters()
	var vs []variant
	add := func(name string, s *core.Spec, err error) {
		if err == nil && s != nil {
			err = compileWith(s, ints)
		}
		vs = append(vs, variant{name: name, spec: s, err: err})
	}
	// Go structures
	s, _ := base()
	add("go", s, nil)
	// compiled repeatedly
	s, _ = base()
	err := compileWith(s, ints)
	if err == nil {
		err = s.Compile(context.Background(), ints, false)
	}
	if err == nil {
		err = compileWith(s, ints)
	}
	vs = append(vs, variant{name: "go-recompiled", spec: s, err: err})
	// JSON / YAML text
	s, _ = base()
	js, _ := json.Marshal(s)
	ys, yerr := yaml.Marshal(s)
	l, lerr := loadJSON(js)
	add("json", l, lerr)
	if yerr == nil {
		l, lerr = loadYAML(ys)
		add("yaml", l, lerr)
	}
	// Go structures whose patterns use Go's own types below the top
	// level ([]string, map[string]string, ints, match.Bindings), as a
	// Go program building a spec would write them
	s, _ = base()
	for _, n := range s.Nodes {
		if n.Branches == nil {
			continue
		}
		for _, b := range n.Branches.Branches {
			b.Pattern = goTyped(b.Pattern, 0)
		}
	}
	add("go-typed-patterns", s, nil)
	// compiled without force, as a first compilation
	s, _ = base()
	vs = append(vs, variant{name: "go-noforce", spec: s, err: s.Compile(context.Background(), ints, false)})
	// Go structures assembled in stages: compiled when one node is still
	// missing, then completed and compiled again without force ("build
	// what has not been built yet")
	// (inline patterns only: once a specification has been compiled its
	// patterns are parsed and its pattern syntax says so - repair ae8d9c9 -
	// so JSON-text patterns cannot be added to it afterwards)
	if names := c.Spec.NodeNames(); len(names) >= 2 && c.Unknown.Kind != "syntax" && c.Unknown.Kind != "malformedPattern" {
		s, _ = base()
		late := names[len(names)/2]
		held := s.Nodes[late]
		delete(s.Nodes, late)
		if first := s.Compile(context.Background(), ints, false); first == nil {
			s.Nodes[late] = held
			vs = append(vs, variant{name: "go-staged", spec: s, err: s.Compile(context.Background(), ints, false)})
		}
	}
	// documents written with the documented key names (not derived
	// from the structs' tags); flow-style YAML is JSON text
	if c.Unknown.Kind == "" {
		for _, syn := range []bool{false, true} {
			suffix := ""
			if syn {
				suffix = "-json-syntax"
			}
			dj, _ := json.Marshal(c.Spec.Doc(false, syn))
			l, lerr := loadJSON(dj)
			add("json-doc"+suffix, l, lerr)
			dy, _ := json.Marshal(c.Spec.Doc(true, syn))
			l, lerr = loadYAML(dy)
			add("yaml-doc-flow"+suffix, l, lerr)
			var generic interface{}
			if yaml.Unmarshal(dy, &generic) == nil {
				if block, err := yaml.Marshal(generic); err == nil {
					l, lerr = loadYAML(block)
					add("yaml-doc-block"+suffix, l, lerr)
					if !syn {
						ys, yerr = block, nil
					}
				}
			}
		}
	}
	// a node that says nothing may be written as null ("done:" in YAML)
	if c.Unknown.Kind == "" {
		doc := c.Spec.Doc(false, false)
		ydoc := c.Spec.Doc(true, false)
		nulls := 0
		for _, d := range []map[string]interface{}{doc, ydoc} {
			nodes, _ := d["nodes"].(map[string]interface{})
			for name, n := range nodes {
				if m, is := n.(map[string]interface{}); is && len(m) == 0 {
					nodes[name] = nil
					nulls++
				}
			}
		}
		if nulls > 0 {
			dj, _ := json.Marshal(doc)
			l, lerr := loadJSON(dj)
			add("json-doc-null-nodes", l, lerr)
			dy, _ := json.Marshal(ydoc)
			var generic interface{}
			if yaml.Unmarshal(dy, &generic) == nil {
				if block, err := yaml.Marshal(generic); err == nil {
					l, lerr = loadYAML(block)
					add("yaml-doc-null-nodes", l, lerr)
				}
			}
		}
	}
	// JSON pattern syntax
	s, _ = base()
	if c.Unknown.Kind != "syntax" && c.Unknown.Kind != "malformedPattern" {
		jsonSyntax(s)
	}
	add("go-json-syntax", s, nil)
	s, _ = base()
	if c.Unknown.Kind != "syntax" && c.Unknown.Kind != "malformedPattern" {
		jsonSyntax(s)
	}
	jsj, _ := json.Marshal(s)
	ysj, yerrj := yaml.Marshal(s)
	l, lerr = loadJSON(jsj)
	add("json-json-syntax", l, lerr)
	if yerrj == nil {
		l, lerr = loadYAML(ysj)
		add("yaml-json-syntax", l, lerr)
	}
	// recompiled under the JSON pattern syntax
	if l, lerr = loadJSON(jsj); lerr == nil {
		err := compileWith(l, ints)
		if err == nil {
			err = compileWith(l, ints)
		}
		vs = append(vs, variant{name: "json-json-syntax-recompiled", spec: l, err: err})
	}
	// compiled, serialised, reloaded
	for _, src := range []struct {
		name string
		text []byte
	}{{"json", js}, {"json-json-syntax", jsj}} {
		if known["C13/reload-json-syntax-bare-string"] && src.name == "json-json-syntax" {
			continue
		}
		l, lerr := loadJSON(src.text)
		if lerr != nil {
			continue
		}
		if compileWith(l, ints) != nil {
			continue
		}
		out, err := json.Marshal(l)
		if err != nil {
			vs = append(vs, variant{name: "reloaded-" + src.name, err: err})
			continue
		}
		l2, lerr := loadJSON(out)
		add("reloaded-"+src.name, l2, lerr)
		yout, err := yaml.Marshal(l)
		if err == nil {
			l3, lerr := loadYAML(yout)
			add("reloaded-yaml-of-"+src.name, l3, lerr)
		}
	}
	// host entry points
	{
		var x interface{}
		json.Unmarshal(js, &x)
		_, sp, err := sio.ResolveSpecSource(context.Background(), map[string]interface{}{"inline": x})
		vs = append(vs, variant{name: "sio-inline", spec: sp, err: err})
		dir, derr := os.MkdirTemp(workDir(), "c13")
		if derr != nil {
			dir = workDir()
		} else {
			defer os.RemoveAll(dir)
		}
		fj := filepath.Join(dir, "c13spec.json")
		fy := filepath.Join(dir, "c13spec.yaml")
		os.WriteFile(fj, js, 0644)
		_, sp, err = sio.ResolveSpecSource(context.Background(), &crew.SpecSource{URL: "file://" + fj})
		vs = append(vs, variant{name: "sio-file-json", spec: sp, err: err})
		// JSON text may be preceded by white space (a blank first line)
		fj2 := filepath.Join(dir, "c13spec-blank-first-line.json")
		os.WriteFile(fj2, append([]byte("\n  "), js...), 0644)
		_, sp, err = sio.ResolveSpecSource(context.Background(), &crew.SpecSource{URL: "file://" + fj2})
		vs = append(vs, variant{name: "sio-file-json-after-a-blank-line", spec: sp, err: err})
		if yerr == nil {
			os.WriteFile(fy, ys, 0644)
			_, sp, err = sio.ResolveSpecSource(context.Background(), &crew.SpecSource{URL: "file://" + fy})
			vs = append(vs, variant{name: "sio-file-yaml", spec: sp, err: err})
			// what mcrew's GetSpec does
			text, err := tools.ReadFileWithInlines(fy)
			if err == nil {
				var ms core.Spec
				if err = yaml.Unmarshal(text, &ms); err == nil {
					err = ms.Compile(context.Background(), interpreters.Standard(), true)
				}
				vs = append(vs, variant{name: "mcrew-getspec", spec: &ms, err: err})
			}
		}
	}
	return vs, true
}

func traceOf(spec *core.Spec, c ReprCase) (string, int) {
	st := &core.State{NodeName: c.Node, Bs: match.Bindings(jsongen.CopyMap(c.Bs))}
	var sb strings.Builder
	// the nodes the compiled specification has (however it was written,
	// and however often it was compiled, it is one and the same machine)
	names := make([]string, 0, len(spec.Nodes))
	for name := range spec.Nodes {
		names = append(names, name)
	}
	sort.Strings(names)
	fmt.Fprintf(&sb, "nodes %q;", names)
	moves := 0
	for _, m := range c.Messages {
		var w *core.Walked
		var err error
		if p := trap(func() {
			w, err = spec.Walk(context.Background(), st, []interface{}{jsongen.Copy(m)}, &core.Control{Limit: 30}, nil)
		}); p != "" {
			sb.WriteString("panic;")
			return sb.String(), moves
		}
		if err != nil || w == nil {
			sb.WriteString("walk error;")
			return sb.String(), moves
		}
		if to := w.To(); to != nil {
			if to.NodeName != st.NodeName {
				moves++
			}
			st = to
		}
		fmt.Fprintf(&sb, "%s emitted=%v %s;\n", scrubbedState(st), emittedOf(w), w.StoppedBecause)
	}
	return sb.String(), moves
}

func hasBareString(a *sm.ASpec) bool {
	for _, n := range a.Nodes {
		for _, b := range n.Branches {
			if _, is := b.Pattern.(string); is && b.HasPattern {
				return true
			}
		}
	}
	return false
}

func checkRepr(c ReprCase) (v ev.Verdict) {
	known := map[string]bool{}
	if _, is := ev.IsKnown("C13", "C13/reload-json-syntax-bare-string"); is && hasBareString(c.Spec) {
		known["C13/reload-json-syntax-bare-string"] = true
		v.Class("known-excluded:reload-json-syntax-bare-string")
	}
	vs, ok := buildVariants(c, known)
	if !ok {
		v.Skip, v.SkipReason = true, "no-position-for-unknown-name"
		return
	}
	if c.Unknown.Kind != "" {
		v.Class("unknown:" + c.Unknown.Kind)
		var canon string
		if c.Unknown.Near > 0 {
			v.Class("unknown:near-miss")
			plain := c
			plain.Unknown = Unknown{}
			if pv, ok := buildVariants(plain, known); ok && len(pv) > 0 && pv[0].err == nil {
				canon, _ = traceOf(pv[0].spec, c)
			}
		}
		for _, x := range vs {
			if x.err == nil {
				if c.Unknown.Near == 0 {
					v.Failf("variant %s: an unknown %s was accepted at compile time", x.name, c.Unknown.Kind)
					return
				}
				// a spelling variant may be accepted, but then it has
				// to mean what the canonical spelling means
				if canon == "" {
					continue
				}
				if got, _ := traceOf(x.spec, c); got != canon {
					v.Failf("variant %s: the %s name %q is accepted at compile time but the machine does not behave like the canonical spelling's:\n%s\nvs\n%s", x.name, c.Unknown.Kind, nearMiss("<name>", c.Unknown.Near), ev.Trunc(got, 600), ev.Trunc(canon, 600))
					return
				}
			}
		}
		// a rejection is final: compiling the rejected specification
		// again must not succeed
		if c.Unknown.Near == 0 {
			for _, x := range vs {
				if x.err != nil && x.spec != nil {
					var err2 error
					if p := trap(func() { err2 = compileWith(x.spec, sm.Interpreters()) }); p != "" {
						v.Failf("variant %s: compiling the rejected specification again panicked: %s", x.name, p)
						return
					}
					if err2 == nil {
						v.Failf("variant %s: rejected at first (%v), but compiling the same specification again was accepted", x.name, x.err)
						return
					}
				}
			}
		}
		v.NonTrivial = true
		return
	}
	var okNames, errNames []string
	for _, x := range vs {
		if x.err == nil {
			okNames = append(okNames, x.name)
		} else {
			errNames = append(errNames, x.name+": "+ev.Trunc(x.err.Error(), 120))
		}
	}
	if len(okNames) > 0 && len(errNames) > 0 {
		sort.Strings(errNames)
		v.Failf("representations disagree on whether the spec compiles: fine for %v, but %s", okNames, strings.Join(errNames, " | "))
		return
	}
	if len(okNames) == 0 {
		v.Class("none-compiles")
		return
	}
	ref, moves := traceOf(vs[0].spec, c)
	for _, x := range vs[1:] {
		got, _ := traceOf(x.spec, c)
		if got != ref {
			v.Failf("variant %s behaves differently from %s:\n%s\nvs\n%s", x.name, vs[0].name, ev.Trunc(got, 700), ev.Trunc(ref, 700))
			return
		}
	}
	v.Class(fmt.Sprintf("variants:%d", len(vs)))
	for _, x := range vs {
		if x.name == "json-doc-null-nodes" {
			v.Class("null-node-variants")
		}
	}
	if hasBareString(c.Spec) {
		v.Class("bare-string-pattern")
	}
	v.NonTrivial = len(vs) >= 3 && moves >= 2
	return
}

func TestC13Repr(t *testing.T) {
	if _, is := ev.IsKnown("C13", "C13/reload-json-syntax-bare-string"); is && !ev.Replaying() {
		confirmReloadFinding(t)
	}
	ev.Run(t, ev.Opts{Property: "C13", Name: "repr", Quick: 2500, Thorough: 150000,
		Rule: "one abstract spec (ECMAScript actions/guards, patterns of every JSON shape incl. bare strings and variables) rendered as Go structures, JSON, YAML, each also under the JSON pattern syntax, compiled once/repeatedly, compiled-serialised-reloaded, and loaded through sio.ResolveSpecSource (inline, file json, file yaml) and mcrew's GetSpec steps; all variants must agree on compiling and produce identical traces; an unknown interpreter / pattern syntax / branching type must be rejected by Compile; non-trivial = >= 3 variants compiled and the walk changed node >= 2 times, or an unknown name was placed",
	}, genRepr, checkRepr)
}

func confirmReloadFinding(t *testing.T) {}

func FuzzC13Repr(f *testing.F) {
	ev.Fuzz(f, ev.Opts{Property: "C13", Name: "repr"}, genRepr, checkRepr)
}

// goTyped rewrites a generic JSON value with the types a Go program
// would naturally use below the top level.
func goTyped(x interface{}, depth int) interface{} {
	switch v := x.(type) {
	case map[string]interface{}:
		allStrings := len(v) > 0
		for _, y := range v {
			if _, ok := y.(string); !ok {
				allStrings = false
			}
		}
		if depth > 0 && allStrings {
			m := map[string]string{}
			for k, y := range v {
				m[k] = y.(string)
			}
			return m
		}
		m := map[string]interface{}{}
		for k, y := range v {
			m[k] = goTyped(y, depth+1)
		}
		if depth > 0 {
			return match.Bindings(m)
		}
		return m
	case []interface{}:
		allStrings := len(v) > 0
		for _, y := range v {
			if _, ok := y.(string); !ok {
				allStrings = false
			}
		}
		if depth > 0 && allStrings {
			a := make([]string, len(v))
			for i, y := range v {
				a[i] = y.(string)
			}
			return a
		}
		a := make([]interface{}, len(v))
		for i, y := range v {
			a[i] = goTyped(y, depth+1)
		}
		return a
	case float64:
		if depth > 0 && v == float64(int(v)) {
			return int(v)
		}
		return v
	}
	return x
}
