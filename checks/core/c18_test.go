package corecheck

import (
	"context"
	"encoding/json"
	"fmt"
	"reflect"
	"strings"
	"sync"
	"testing"

	"github.com/Comcast/sheens/core"
	"github.com/Comcast/sheens/match"
	"pgregory.net/rapid"
	"verif/lib/ev"
	"verif/lib/jsongen"
	"verif/lib/refmatch"
	"verif/lib/sm"
)

// ---------------------------------------------------------------- C18

type PermCase struct {
	Bs          map[string]interface{} `json:"bs"`
	Action      *sm.Prog               `json:"action,omitempty"`
	Native      bool                   `json:"native,omitempty"`
	Guard       *sm.Prog               `json:"guard,omitempty"`
	GuardNative bool                   `json:"guardNative,omitempty"`
	ErrBranches bool                   `json:"errBranches,omitempty"`
	ErrNode     string                 `json:"errNode,omitempty"`
	InPlace     bool                   `json:"inPlace,omitempty"` // native code deletes/overwrites in the map it is given (like bs.Remove)
	Direct      bool                   `json:"direct,omitempty"`  // call Action.Exec directly instead of Spec.Step
	Default     bool                   `json:"default,omitempty"`
	// PatternVar: the guarded branch has a pattern that binds a variable
	// with a permanent name from the bindings ({"x": "?p!"})
	PatternVar bool `json:"patternVar,omitempty"`
	// Warm: states the same compiled action / guard processes before the
	// judged one (each is judged too): what an action learns from one
	// machine's bindings must not decide what it does for another's
	Warm []map[string]interface{} `json:"warm,omitempty"`
	// Typed: the permanent binding "big!" holds a value of a Go type a
	// host may well put there (a large int64, a json.Number, a []int64);
	// the case data carries its JSON image, the real value is put in
	// when the case runs.  "Previous value" means that very value.
	Typed string `json:"typed,omitempty"`
	// Parallel: the other states are stepped through the same compiled
	// spec at the same time as the judged one (several machines of one
	// specification on several goroutines), not before it
	Parallel bool `json:"parallel,omitempty"`
	// Declared: the action and guard sources carry the documented "binds"
	// declaration (which new bindings the code makes): 0 none, 1 an empty
	// list, 2 [{"x":"?"}], 3 [{"y":"?"},{"n":1}].  It declares, it does not
	// limit what the code may delete or replace.
	Declared int `json:"declared,omitempty"`
	// ViaCopy (only without error settings, which Spec.Copy does not
	// carry): the specification is a Copy of the built one, compiled
	ViaCopy bool `json:"viaCopy,omitempty"`
	// Ended (native code only, which does not look at it): the step runs
	// under a context that has already ended - a caller that gave up
	// does not make a permanent binding any less permanent
	Ended bool `json:"ended,omitempty"`
}

func (c PermCase) context() context.Context {
	if !c.Ended {
		return context.Background()
	}
	ctx, cancel := context.WithCancel(context.Background())
	cancel()
	return ctx
}

func (c PermCase) compiled(a *sm.ASpec) (*core.Spec, error) {
	s := a.Build()
	if c.Declared > 0 {
		var binds []match.Bindings
		switch c.Declared {
		case 1:
			binds = []match.Bindings{}
		case 2:
			binds = []match.Bindings{{"x": "?"}}
		case 3:
			binds = []match.Bindings{{"y": "?"}, {"n": 1.0}}
		}
		for _, n := range s.Nodes {
			if n.ActionSource != nil {
				n.ActionSource.Binds = binds
			}
			if n.Branches != nil {
				for _, b := range n.Branches.Branches {
					if b.GuardSource != nil {
						b.GuardSource.Binds = binds
					}
				}
			}
		}
	}
	if c.ViaCopy {
		s = s.Copy("copied")
	}
	if err := s.Compile(context.Background(), sm.Interpreters(), true); err != nil {
		return nil, err
	}
	return s, nil
}

const bigInt = int64(1700000000123456789)

func typedValue(kind string) (real interface{}, jsonImage interface{}) {
	switch kind {
	case "int64":
		return bigInt, float64(bigInt)
	case "jsonNumber":
		return json.Number("1700000000123456789"), float64(bigInt)
	case "int64slice":
		return []int64{bigInt, 2}, []interface{}{float64(bigInt), 2.0}
	}
	return nil, nil
}

var permKeys = []string{"cfg!", "id!", "!", "a!b!", "x", "y", "n", "!lead", "?p!"}

func genPerm(t *rapid.T) PermCase {
	c := PermCase{Bs: map[string]interface{}{}}
	for i := rapid.IntRange(0, 6).Draw(t, "nb"); i > 0; i-- {
		k := rapid.SampledFrom(permKeys).Draw(t, fmt.Sprintf("k%d", i))
		c.Bs[k] = jsongen.Value(t, jsongen.Opts{Depth: 2, Width: 2}, fmt.Sprintf("v%d", i))
	}
	po := sm.ProgOpts{Keys: permKeys, Fail: 4, Emit: true}
	switch rapid.IntRange(0, 2).Draw(t, "mode") {
	case 0:
		c.Action = sm.GenProg(t, po, "act")
	case 1:
		po.Guard = true
		c.Guard = sm.GenProg(t, po, "guard")
	default:
		c.Action = sm.GenProg(t, po, "act")
		po.Guard = true
		c.Guard = sm.GenProg(t, po, "guard")
	}
	c.Native = rapid.IntRange(0, 2).Draw(t, "nat") == 0
	c.GuardNative = rapid.IntRange(0, 2).Draw(t, "gnat") == 0
	c.ErrBranches = rapid.Bool().Draw(t, "eb")
	c.ErrNode = rapid.SampledFrom([]string{"", "aerr", "aerr"}).Draw(t, "en")
	c.Default = rapid.Bool().Draw(t, "def")
	if c.Guard != nil && rapid.IntRange(0, 2).Draw(t, "pv") == 0 {
		c.PatternVar = true
		if _, have := c.Bs["x"]; !have {
			c.Bs["x"] = jsongen.Value(t, jsongen.Opts{Depth: 1, Width: 2}, "pvx")
		}
		delete(c.Bs, "?p!")
	}
	for i := rapid.IntRange(0, 2).Draw(t, "nwarm"); i > 0; i-- {
		w := map[string]interface{}{}
		keys := permKeys
		if rapid.Bool().Draw(t, fmt.Sprintf("warmplain%d", i)) {
			keys = []string{"x", "y", "n", "!lead"} // nothing permanent
		}
		for j := rapid.IntRange(1, 3).Draw(t, fmt.Sprintf("warmn%d", i)); j > 0; j-- {
			w[rapid.SampledFrom(keys).Draw(t, fmt.Sprintf("warmk%d.%d", i, j))] = jsongen.Value(t, jsongen.Opts{Depth: 1, Width: 2}, fmt.Sprintf("warmv%d.%d", i, j))
		}
		c.Warm = append(c.Warm, w)
	}
	if rapid.IntRange(0, 4).Draw(t, "typed") == 0 {
		c.Typed = rapid.SampledFrom([]string{"int64", "jsonNumber", "int64slice"}).Draw(t, "typedKind")
		_, c.Bs["big!"] = typedValue(c.Typed)
	}
	c.Parallel = len(c.Warm) > 0 && rapid.Bool().Draw(t, "parallel")
	c.Declared = rapid.SampledFrom([]int{0, 0, 0, 1, 2, 3}).Draw(t, "declared")
	c.ViaCopy = !c.ErrBranches && c.ErrNode == "" && rapid.IntRange(0, 3).Draw(t, "viaCopy") == 0
	c.Ended = (c.Action == nil || c.Native) && (c.Guard == nil || c.GuardNative) && rapid.IntRange(0, 4).Draw(t, "ended") == 2
	c.InPlace = (c.Native || c.GuardNative) && rapid.Bool().Draw(t, "inplace")
	c.Direct = c.Guard == nil && rapid.IntRange(0, 3).Draw(t, "direct") == 0
	return c
}

func (c PermCase) spec() *sm.ASpec {
	n := &sm.ANode{Action: c.Action, ActionNative: c.Native, InPlace: c.InPlace, BranchType: "bindings"}
	if c.Guard != nil {
		b := sm.ABranch{Guard: c.Guard, GuardNative: c.GuardNative, GuardInPlace: c.InPlace, Target: "n1"}
		if c.PatternVar {
			b.HasPattern, b.Pattern = true, map[string]interface{}{"x": "?p!"}
		}
		n.Branches = append(n.Branches, b)
	}
	if c.Default || c.Guard == nil {
		n.Branches = append(n.Branches, sm.ABranch{Target: "n2"})
	}
	return &sm.ASpec{Name: "perm", Nodes: map[string]*sm.ANode{"start": n, "n1": {NoBranching: true}, "n2": {NoBranching: true}, "aerr": {NoBranching: true}},
		ActionErrorBranches: c.ErrBranches, ActionErrorNode: c.ErrNode}
}

func permanents(bs map[string]interface{}) map[string]interface{} {
	out := map[string]interface{}{}
	for k, v := range bs {
		if strings.HasSuffix(k, "!") {
			out[k] = v
		}
	}
	return out
}

// untyped: the bindings whose JSON image is their value (the typed
// permanent binding is compared separately, as the Go value it is).
func untyped(c PermCase) map[string]interface{} {
	if c.Typed == "" {
		return c.Bs
	}
	out := jsongen.CopyMap(c.Bs)
	delete(out, "big!")
	return out
}

func checkPermanentsIn(before map[string]interface{}, after match.Bindings, what string, v *ev.Verdict) bool {
	for k, want := range permanents(before) {
		got, have := after[k]
		if !have {
			v.Failf("%s: permanent binding %q is gone", what, k)
			return false
		}
		if !refmatch.Equal(got, want) {
			v.Failf("%s: permanent binding %q changed from %s to %s", what, k, ev.JS(want), ev.JS(got))
			return false
		}
	}
	return true
}

func checkPerm(c PermCase) (v ev.Verdict) {
	a := c.spec()
	spec, err := c.compiled(a)
	if err != nil {
		v.Failf("spec does not compile: %v", err)
		return
	}
	if c.Declared > 0 {
		v.Class("declared-binds")
	}
	if c.ViaCopy {
		v.Class("copied-spec")
	}
	if c.Parallel {
		// the same compiled spec, all states at once, a few rounds
		cases := []PermCase{c}
		for _, w := range c.Warm {
			wc := c
			wc.Bs = w
			wc.Typed = ""
			if c.PatternVar {
				if _, have := wc.Bs["x"]; !have {
					wc.Bs = jsongen.CopyMap(w)
					wc.Bs["x"] = 1.0
				}
				delete(wc.Bs, "?p!")
			}
			cases = append(cases, wc)
		}
		for round := 0; round < 5; round++ {
			vs := make([]ev.Verdict, len(cases))
			var wg sync.WaitGroup
			start := make(chan struct{})
			for i := range cases {
				wg.Add(1)
				go func(i int) {
					defer wg.Done()
					<-start
					vs[i] = checkPermOn(cases[i], a, spec)
				}(i)
			}
			close(start)
			wg.Wait()
			for i := range vs {
				if vs[i].Err != "" {
					v = vs[0]
					v.Err = ""
					v.Failf("state %d of %d stepped at the same time through one compiled spec (round %d): %s", i, len(cases), round, vs[i].Err)
					return
				}
			}
			v = vs[0]
		}
		v.Class("beside-other-states")
		return
	}
	// the same compiled spec, one state after the other
	for i, w := range c.Warm {
		wc := c
		wc.Bs = w
		wc.Typed = ""
		if c.PatternVar {
			if _, have := wc.Bs["x"]; !have {
				wc.Bs = jsongen.CopyMap(w)
				wc.Bs["x"] = 1.0
			}
			delete(wc.Bs, "?p!")
		}
		wv := checkPermOn(wc, a, spec)
		if wv.Err != "" {
			v.Failf("earlier state %d of %d on the same compiled spec: %s", i, len(c.Warm), wv.Err)
			return
		}
	}
	v = checkPermOn(c, a, spec)
	if len(c.Warm) > 0 {
		v.Class("after-other-states")
	}
	return
}

func checkPermOn(c PermCase, a *sm.ASpec, spec *core.Spec) (v ev.Verdict) {
	nperm := len(permanents(c.Bs))
	touches := func(p *sm.Prog) bool {
		if p == nil {
			return false
		}
		for _, op := range p.Ops {
			switch op.Op {
			case "fresh", "keep", "throw", "returnNull", "returnScalar", "returnTrap", "outNaN", "acceptIf":
				return true
			case "set", "del", "inc", "push", "calc":
				if strings.HasSuffix(op.K, "!") {
					return true
				}
			case "copy":
				if len(op.Keys) > 0 && strings.HasSuffix(op.Keys[0], "!") {
					return true
				}
			}
		}
		return false
	}
	v.NonTrivial = nperm > 0 && (touches(c.Action) || touches(c.Guard))
	if c.Direct {
		v.Class("direct-exec")
		act := spec.Nodes["start"].Action
		given := match.Bindings(jsongen.CopyMap(c.Bs))
		real, _ := typedValue(c.Typed)
		if real != nil {
			given["big!"] = real
		}
		var exe *core.Execution
		var xerr error
		if p := trap(func() { exe, xerr = act.Exec(c.context(), given, nil) }); p != "" {
			v.Failf("Action.Exec panicked with %d permanent binding(s): %s", nperm, p)
			return
		}
		if xerr == nil && exe != nil && exe.Bs != nil {
			v.Class("returned-bindings")
			if checkPermanentsIn(untyped(c), exe.Bs, "Action.Exec result", &v) && real != nil {
				v.Class("typed-permanent")
				if !reflect.DeepEqual(exe.Bs["big!"], real) {
					v.Failf("Action.Exec result: permanent binding \"big!\" was %#v (%T) and is now %#v (%T)", real, real, exe.Bs["big!"], exe.Bs["big!"])
				}
			}
		} else {
			v.Class("no-bindings-returned")
			// "a failing action or a rejecting guard leaves them in place
			// as well": in the map the code was given, which native code
			// may have worked on
			if c.InPlace && c.Native {
				v.Class("in-place-native-failed-or-declined")
				if checkPermanentsIn(untyped(c), given, "the bindings given to an action that failed or returned none", &v) && real != nil {
					if !reflect.DeepEqual(given["big!"], real) {
						v.Failf("the bindings given to an action that failed: permanent binding \"big!\" was %#v and is now %#v", real, given["big!"])
					}
				}
			}
		}
		return
	}
	st := &core.State{NodeName: "start", Bs: match.Bindings(jsongen.CopyMap(c.Bs))}
	real, _ := typedValue(c.Typed)
	if real != nil {
		st.Bs["big!"] = real
	}
	var stride *core.Stride
	var serr error
	if p := trap(func() { stride, serr = spec.Step(c.context(), st, nil, nil, nil) }); p != "" {
		v.Failf("Spec.Step panicked with %d permanent binding(s) (action %s, guard %s): %s", nperm, ev.JS(c.Action), ev.JS(c.Guard), p)
		return
	}
	got := sm.Observe(stride, serr, nil)
	allowed := sm.RefStep(a, "start", c.Bs, nil)
	if ok, keys := sm.Allowed(got, allowed); !ok {
		// native code that works on the map it is given and then fails or
		// declines leaves its other changes behind, and they can decide
		// which branch is taken next; the step rule does not describe
		// that - only the permanent bindings are judged (below)
		inPlaceNative := c.InPlace && ((c.Native && c.Action != nil && c.Action.Run(c.Bs).Kind != "ok") || (c.GuardNative && c.Guard != nil))
		if !inPlaceNative {
			v.Failf("step gave %s; allowed %s", got.Key(), strings.Join(keys, " || "))
			return
		}
		v.Class("in-place-native-failed-or-declined")
	}
	route := allowed[0].Route
	v.Class("route:" + strings.Split(route, ":")[0])
	if serr != nil || stride == nil || stride.To == nil {
		v.Class("no-new-state")
		return
	}
	if strings.HasPrefix(route, "action-null") {
		// an action that returns null gets empty bindings; whether
		// permanent ones survive is not specified
		v.Class("action-returned-null(unjudged)")
		return
	}
	if checkPermanentsIn(untyped(c), stride.To.Bs, "state after the step", &v) && real != nil {
		v.Class("typed-permanent")
		if !reflect.DeepEqual(stride.To.Bs["big!"], real) {
			v.Failf("state after the step: permanent binding \"big!\" was %#v (%T) and is now %#v (%T)", real, real, stride.To.Bs["big!"], stride.To.Bs["big!"])
		}
	}
	return
}

func TestC18Permanent(t *testing.T) {
	ev.Run(t, ev.Opts{Property: "C18", Name: "permanent", Quick: 30000, Thorough: 1500000,
		Rule: "bindings with 0-4 keys ending in '!' x action/guard programs (ECMAScript and native) that delete, overwrite, replace wholesale, fail, return null/scalars or reject, through Action.Exec and Spec.Step; non-trivial = >= 1 permanent binding and the program touches it, replaces the bindings, fails or may reject"},
		genPerm, checkPerm)
}

func FuzzC18Permanent(f *testing.F) {
	ev.Fuzz(f, ev.Opts{Property: "C18", Name: "permanent"}, genPerm, checkPerm)
}
