package siocheck

import (
	"bytes"
	"context"
	"encoding/json"
	"fmt"
	"sort"
	"strings"
	"testing"

	"github.com/Comcast/sheens/core"
	"github.com/Comcast/sheens/crew"
	"github.com/Comcast/sheens/sio"
	"pgregory.net/rapid"
	"verif/lib/crewh"
	"verif/lib/ev"
	"verif/lib/jsongen"
)

// ---------------------------------------------------------------- C14 (sio)

// The recorder: appends every message it sees to its log and emits
// the messages listed under the message's "emit" field.
const recorderSrc = `
var bs = _.bindings;
var m = bs["?m"];
var log = bs.log || [];
log.push(m);
if (m && typeof m === 'object' && m.emit) {
  for (var i = 0; i < m.emit.length; i++) {
    var e = JSON.parse(JSON.stringify(m.emit[i]));
    if (e && typeof e === 'object' && !Array.isArray(e)) { e.by = _.props.mid; }
    _.out(e);
  }
}
return {log: log};
`

func recorderSpec() *core.Spec {
	return &core.Spec{Name: "recorder", Nodes: map[string]*core.Node{
		"start": {Branches: &core.Branches{Type: "message", Branches: []*core.Branch{{Pattern: "?m", Target: "rec"}}}},
		"rec": {ActionSource: &core.ActionSource{Interpreter: "ecmascript", Source: recorderSrc},
			Branches: &core.Branches{Type: "bindings", Branches: []*core.Branch{{Target: "start"}}}},
	}}
}

type RouteCase struct {
	Mids     []string      `json:"mids"`
	Messages []interface{} `json:"messages"`
	// Spawn: emission trees may hold crew operations for the captain
	// ({"spawn": id} / {"despawn": id} markers, expanded to update /
	// delete operations when the case runs) that add and remove recorder
	// machines while the messages of the same batch are still queued.
	Spawn bool `json:"spawn,omitempty"`
	// Ghost: the crew also holds a machine that has a state but no
	// specification (a captain update that gave only a state, a spec that
	// did not compile, a state file entry without a spec).  It cannot
	// run, so it receives nothing - and must not get in anybody's way.
	Ghost bool `json:"ghost,omitempty"`
	// Slow: the crew (step limit 10 then) also holds a machine that needs
	// 35 steps through action nodes after every message before it listens
	// again: its walks end at the step limit, with the next message still
	// unconsumed.  That is that machine's business only.
	Slow bool `json:"slow,omitempty"`
	// Renamed: the host has given the crew's service machines other ids
	// (sio.TimersMachine and sio.CaptainMachine are exported variables)
	// before it made the crew: "clock" and "boss".  Everything said about
	// "timers" and "captain" holds for those names then.
	Renamed bool `json:"renamed,omitempty"`
}

// the ids of the service machines in the case that is running
var svcTimers, svcCaptain = "timers", "captain"

func slowSpec() *core.Spec {
	return &core.Spec{Name: "slow", Nodes: map[string]*core.Node{
		"start": {Branches: &core.Branches{Type: "message", Branches: []*core.Branch{{Pattern: "?m", Target: "spin"}}}},
		"spin": {ActionSource: &core.ActionSource{Interpreter: "ecmascript", Source: `var n = (typeof _.bindings.n === 'number' ? _.bindings.n : 0) + 1; return {n: n};`},
			Branches: &core.Branches{Type: "bindings", Branches: []*core.Branch{
				{Pattern: map[string]interface{}{"n": 35.0}, Target: "rest"},
				{Target: "spin"}}}},
		"rest": {ActionSource: &core.ActionSource{Interpreter: "ecmascript", Source: `return {};`},
			Branches: &core.Branches{Type: "bindings", Branches: []*core.Branch{{Target: "start"}}}},
	}}
}

var spawnPool = []string{"s1", "s2"}

// expandOps replaces the spawn / despawn markers by the captain's
// update / delete operations, everywhere in the message tree.
func expandOps(x interface{}) interface{} {
	switch vv := x.(type) {
	case []interface{}:
		out := make([]interface{}, len(vv))
		for i, y := range vv {
			out[i] = expandOps(y)
		}
		return out
	case map[string]interface{}:
		out := map[string]interface{}{}
		for k, y := range vv {
			switch k {
			case "spawn":
				id, _ := y.(string)
				src, _ := crewh.InlineSource(recorderSpec())
				js, _ := json.Marshal(map[string]interface{}{id: &crew.Machine{SpecSource: src}})
				var generic interface{}
				json.Unmarshal(js, &generic)
				out["update"] = generic
			case "despawn":
				out["delete"] = []interface{}{y}
			default:
				out[k] = expandOps(y)
			}
		}
		return out
	}
	return x
}

var midPool = []string{"a", "b", "c", "d", "m 1", "e"}

var seq int

// spawning: set while a case with crew operations is generated
var spawning bool

func genTo(t *rapid.T, mids []string, label string, allowRepeat bool) (interface{}, bool) {
	pick := func(l string) string {
		if spawning && rapid.IntRange(0, 2).Draw(t, l+".sp") == 0 {
			return rapid.SampledFrom(spawnPool).Draw(t, l+".spid")
		}
		if len(mids) > 0 && rapid.IntRange(0, 4).Draw(t, l+".known") > 0 {
			return rapid.SampledFrom(mids).Draw(t, l+".mid")
		}
		return rapid.SampledFrom([]string{"nobody", "zz", "A"}).Draw(t, l+".unknown")
	}
	switch k := rapid.IntRange(0, 11).Draw(t, label+".tok"); {
	case k <= 2:
		return nil, false // absent
	case k <= 5:
		return pick(label), true
	case k == 6:
		return "*", true
	case k <= 9:
		n := rapid.IntRange(0, 4).Draw(t, label+".ln")
		l := []interface{}{}
		seen := map[string]bool{}
		for i := 0; i < n; i++ {
			if rapid.IntRange(0, 5).Draw(t, fmt.Sprintf("%s.ns%d", label, i)) == 0 {
				l = append(l, rapid.SampledFrom([]interface{}{1.0, nil, true, map[string]interface{}{"a": 1.0}}).Draw(t, fmt.Sprintf("%s.nsv%d", label, i)))
				continue
			}
			id := pick(fmt.Sprintf("%s.l%d", label, i))
			if seen[id] && !allowRepeat {
				continue
			}
			seen[id] = true
			l = append(l, id)
		}
		return l, true
	case k == 10:
		if spawning {
			// the captain gets crew operations only: anything else
			// leaves it waiting for a repetition of that message
			return "timers", true
		}
		return rapid.SampledFrom([]string{"timers", "captain"}).Draw(t, label+".svc"), true
	default:
		return rapid.SampledFrom([]interface{}{7.0, true, map[string]interface{}{"x": "a"}}).Draw(t, label+".odd"), true
	}
}

func genRoutedMsg(t *rapid.T, mids []string, depth int, label string, counter *int, allowRepeat bool, parent ...float64) interface{} {
	*counter++
	if rapid.IntRange(0, 14).Draw(t, label+".scalar") == 0 {
		return fmt.Sprintf("plain-%d", *counter)
	}
	m := map[string]interface{}{"n": float64(*counter), "depth": float64(depth)}
	if len(parent) > 0 {
		m["p"] = parent[0]
	}
	if spawning && rapid.IntRange(0, 3).Draw(t, label+".crewop") == 0 {
		m["to"] = "captain"
		if rapid.IntRange(0, 3).Draw(t, label+".del") == 0 {
			m["despawn"] = rapid.SampledFrom(append(append([]string{}, spawnPool...), mids...)).Draw(t, label+".did")
		} else {
			m["spawn"] = rapid.SampledFrom(spawnPool).Draw(t, label+".sid")
		}
		return m
	}
	if to, have := genTo(t, mids, label, allowRepeat); have {
		m["to"] = to
	}
	if to, _ := m["to"].(string); to != "timers" && to != "captain" && rapid.IntRange(0, 3).Draw(t, label+".bait") == 0 {
		// something a service machine would react to, had it been shown
		// this message
		m["cancelTimer"] = "no-such-timer"
	}
	if depth < 3 {
		fan := rapid.IntRange(0, 3-depth).Draw(t, label+".fan")
		if fan > 0 {
			em := []interface{}{}
			for i := 0; i < fan; i++ {
				em = append(em, genRoutedMsg(t, mids, depth+1, fmt.Sprintf("%s.%d", label, i), counter, allowRepeat, m["n"].(float64)))
			}
			m["emit"] = em
			// Which of several machines reacts first to one message is
			// not specified, so crew operations must not be emitted by
			// several machines at once (the crew would depend on that
			// order): the parent of a crew operation goes to one machine.
			for _, e := range em {
				if em1, ok := e.(map[string]interface{}); ok {
					_, sp := em1["spawn"]
					_, de := em1["despawn"]
					if sp || de {
						m["to"] = rapid.SampledFrom(append(append([]string{}, mids...), spawnPool...)).Draw(t, label+".single")
						break
					}
				}
			}
		}
	}
	return m
}

func genRoute(t *rapid.T) RouteCase {
	n := rapid.IntRange(0, 6).Draw(t, "n")
	c := RouteCase{}
	perm := rapid.Permutation(midPool).Draw(t, "mids")
	c.Mids = append(c.Mids, perm[:n]...)
	_, repeatKnown := ev.IsKnown("C14", "C14/sio-repeated-list-member")
	counter := 0
	c.Ghost = rapid.IntRange(0, 3).Draw(t, "ghost") == 0
	c.Slow = rapid.IntRange(0, 3).Draw(t, "slow") == 0
	c.Spawn = rapid.IntRange(0, 2).Draw(t, "spawn") == 0
	c.Renamed = rapid.IntRange(0, 5).Draw(t, "renamed") == 3
	spawning = c.Spawn
	defer func() { spawning = false }()
	for i := rapid.IntRange(1, 6).Draw(t, "nm"); i > 0; i-- {
		c.Messages = append(c.Messages, genRoutedMsg(t, c.Mids, 0, fmt.Sprintf("m%d", i), &counter, !repeatKnown))
	}
	return c
}

// targets: who must see this message (ordinary machines only).
func targets(mids []string, msg interface{}) []string {
	is := func(id string) bool {
		for _, m := range mids {
			if m == id {
				return true
			}
		}
		return false
	}
	m, ok := msg.(map[string]interface{})
	if !ok {
		return mids
	}
	to, have := m["to"]
	if !have {
		return mids
	}
	switch tv := to.(type) {
	case string:
		if tv == "*" {
			return mids
		}
		if is(tv) {
			return []string{tv}
		}
		return nil
	case []interface{}:
		seen := map[string]bool{}
		var out []string
		for _, x := range tv {
			if s, ok := x.(string); ok && is(s) && !seen[s] {
				seen[s] = true
				out = append(out, s)
			}
		}
		return out
	}
	return mids
}

func contains(xs []string, x string) bool {
	for _, y := range xs {
		if y == x {
			return true
		}
	}
	return false
}

func without(xs []string, x string) []string {
	var out []string
	for _, y := range xs {
		if y != x {
			out = append(out, y)
		}
	}
	return out
}

func depthOf(msg interface{}) float64 {
	if m, ok := msg.(map[string]interface{}); ok {
		if d, ok := m["depth"].(float64); ok {
			return d
		}
	}
	return -1
}

func checkRoute(c RouteCase) (v ev.Verdict) {
	if c.Renamed {
		// the case speaks of "timers" and "captain"; translate it
		js, _ := json.Marshal(c)
		js = bytes.ReplaceAll(js, []byte(`"timers"`), []byte(`"clock"`))
		js = bytes.ReplaceAll(js, []byte(`"captain"`), []byte(`"boss"`))
		c = RouteCase{}
		json.Unmarshal(js, &c)
		oldT, oldC := sio.TimersMachine, sio.CaptainMachine
		sio.TimersMachine, sio.CaptainMachine = "clock", "boss"
		svcTimers, svcCaptain = "clock", "boss"
		defer func() {
			sio.TimersMachine, sio.CaptainMachine = oldT, oldC
			svcTimers, svcCaptain = "timers", "captain"
		}()
		v.Class("renamed-service-machines")
	}
	ctx, cancel := context.WithCancel(context.Background())
	defer cancel()
	limit := 100
	if c.Slow {
		limit = 10
	}
	cr, _, err := crewh.NewCrew(ctx, limit, 64)
	if err != nil {
		v.Failf("NewCrew: %v", err)
		return
	}
	if c.Slow {
		src, err := crewh.InlineSource(slowSpec())
		if err != nil {
			v.Failf("%v", err)
			return
		}
		if err := cr.SetMachine(ctx, "zz-slow", src, nil); err != nil {
			v.Failf("SetMachine: %v", err)
			return
		}
		v.Class("machine-at-the-step-limit")
	}
	for _, mid := range c.Mids {
		src, err := crewh.InlineSource(recorderSpec())
		if err != nil {
			v.Failf("%v", err)
			return
		}
		if err := cr.SetMachine(ctx, mid, src, nil); err != nil {
			v.Failf("SetMachine %q: %v", mid, err)
			return
		}
	}
	if c.Ghost {
		if err := cr.SetMachine(ctx, "ghost", nil, &core.State{NodeName: "start"}); err != nil {
			v.Failf("SetMachine without a spec: %v", err)
			return
		}
		v.Class("machine-without-spec")
	}
	wantLog := map[string][]string{}
	live := append([]string{}, c.Mids...)
	crewOps, lateDeliveries := 0, 0
	spawnedAt := map[string]int{}
	routed, broadcast, reinjected := 0, 0, 0
	svcAddressed := map[string]bool{}
	logLen := func(mid string) int {
		if m := cr.Machines[mid]; m != nil && m.State != nil {
			if l, ok := m.State.Bs["log"].([]interface{}); ok {
				return len(l)
			}
		}
		return 0
	}
	for mi, msg := range c.Messages {
		msg = expandOps(msg)
		before := map[string]int{}
		for _, mid := range append(append([]string{}, live...), spawnPool...) {
			before[mid] = logLen(mid)
		}
		// model: breadth-first processing
		var wantBatches []string
		queue := []interface{}{msg}
		first := true
		for len(queue) > 0 {
			cur := queue[0]
			queue = queue[1:]
			if !first {
				reinjected++
			}
			first = false
			tg := targets(live, cur)
			if m, ok := cur.(map[string]interface{}); ok {
				if to, ok := m["to"].(string); ok && (to == svcTimers || to == svcCaptain) {
					svcAddressed[to] = true
				}
				if to, _ := m["to"].(string); to == svcCaptain {
					// the captain executes crew operations when their
					// turn in the queue comes
					if up, ok := m["update"].(map[string]interface{}); ok {
						for _, id := range jsongen.SortedKeys(up) {
							if !contains(live, id) {
								live = append(live, id)
								spawnedAt[id] = mi
								before[id] = 0
							}
							crewOps++
						}
					}
					if del, ok := m["delete"].([]interface{}); ok {
						for _, x := range del {
							id, _ := x.(string)
							if contains(live, id) {
								live = without(live, id)
								delete(wantLog, id)
								delete(spawnedAt, id)
							}
							crewOps++
						}
					}
				}
				if _, has := m["to"]; has {
					routed++
				} else {
					broadcast++
				}
			} else {
				broadcast++
			}
			for _, mid := range tg {
				if at, sp := spawnedAt[mid]; sp && at == mi {
					lateDeliveries++ // to a machine created earlier in this very batch
				}
				wantLog[mid] = append(wantLog[mid], jsongen.Canon(cur))
				if m, ok := cur.(map[string]interface{}); ok {
					if em, ok := m["emit"].([]interface{}); ok && len(em) > 0 {
						stamped := make([]interface{}, len(em))
						for i, e := range em {
							stamped[i] = stampBy(e, mid)
						}
						wantBatches = append(wantBatches, jsongen.Canon(stamped))
						queue = append(queue, stamped...)
					}
				}
			}
		}
		r, err := cr.ProcessMsg(ctx, jsongen.Copy(msg))
		if err != nil {
			v.Failf("ProcessMsg: %v", err)
			return
		}
		var gotBatches []string
		for _, b := range r.Emitted {
			gotBatches = append(gotBatches, jsongen.Canon(b))
		}
		sort.Strings(gotBatches)
		sort.Strings(wantBatches)
		if strings.Join(gotBatches, "\n") != strings.Join(wantBatches, "\n") {
			v.Failf("message %d %s: the crew reported emission batches\n %v\nbut the machines that must see it (and its re-injected emissions) emit\n %v", mi, jsongen.Canon(msg), gotBatches, wantBatches)
			return
		}
		// breadth-first, keeping each machine's emission order: within
		// what one submitted message caused, a machine sees shallower
		// messages first and siblings of one emission list in list order
		for _, mid := range live {
			m := cr.Machines[mid]
			if m == nil || m.State == nil {
				continue
			}
			l, _ := m.State.Bs["log"].([]interface{})
			if before[mid] > len(l) {
				continue
			}
			seg := l[before[mid]:]
			lastDepth := -1.0
			perParent := map[float64][]float64{}
			for _, x := range seg {
				xm, ok := x.(map[string]interface{})
				if !ok {
					continue
				}
				d, _ := jsongen.Normalize(xm["depth"])
				df, _ := d.(float64)
				if df < lastDepth {
					v.Failf("machine %q saw a depth-%v message after a depth-%v one while one submitted message was processed (not breadth-first): %s", mid, df, lastDepth, jsongen.Canon(seg))
					return
				}
				lastDepth = df
				if pv, has := xm["p"]; has {
					pn, _ := jsongen.Normalize(pv)
					nn, _ := jsongen.Normalize(xm["n"])
					pf, _ := pn.(float64)
					nf, _ := nn.(float64)
					perParent[pf] = append(perParent[pf], nf)
				}
			}
			// the emission list of one parent may arrive several times
			// (several machines emitted it); each arrival must be in
			// list order, i.e. the sequence splits into equal
			// increasing runs
			if at, sp := spawnedAt[mid]; sp && at == mi {
				// created while this batch was under way: it joined in
				// the middle of some emission list, so its first run of
				// that list is only a tail of the later ones
				continue
			}
			for pf, ns := range perParent {
				var runs [][]float64
				for i, n := range ns {
					if i == 0 || n <= ns[i-1] {
						runs = append(runs, nil)
					}
					runs[len(runs)-1] = append(runs[len(runs)-1], n)
				}
				for _, r := range runs[1:] {
					if fmt.Sprint(r) != fmt.Sprint(runs[0]) {
						v.Failf("machine %q saw the emissions of message %v out of their emission order: %v (log segment %s)", mid, pf, ns, jsongen.Canon(seg))
						return
					}
				}
			}
		}
	}
	for _, id := range append(append([]string{}, c.Mids...), spawnPool...) {
		if _, there := cr.Machines[id]; there != contains(live, id) {
			v.Failf("after the crew operations machine %q exists=%v, the operations say %v", id, there, contains(live, id))
			return
		}
	}
	for _, mid := range live {
		m := cr.Machines[mid]
		var got []string
		last := -1.0
		if m != nil && m.State != nil {
			if l, ok := m.State.Bs["log"].([]interface{}); ok {
				for _, x := range l {
					got = append(got, jsongen.Canon(x))
				}
			}
		}
		_ = last
		g := append([]string{}, got...)
		w := append([]string{}, wantLog[mid]...)
		sort.Strings(g)
		sort.Strings(w)
		if strings.Join(g, "\n") != strings.Join(w, "\n") {
			v.Failf("machine %q received\n %v\nbut must have received exactly\n %v", mid, got, wantLog[mid])
			return
		}
	}
	// service machines only see what is addressed to them: the
	// timers machine never takes an unaddressed message
	for _, svc := range []string{svcTimers, svcCaptain} {
		if svcAddressed[svc] {
			continue
		}
		if m := cr.Machines[svc]; m != nil && m.State != nil {
			for k := range m.State.Bs {
				if k != "timers" {
					v.Failf("service machine %q was never addressed, yet it reacted to a message (its bindings now have %q: %s)", svc, k, jsongen.Canon(map[string]interface{}(m.State.Bs)))
					return
				}
			}
			if m.State.NodeName != "start" {
				v.Failf("service machine %q was never addressed, yet it moved to %q", svc, m.State.NodeName)
				return
			}
		}
	}
	v.NonTrivial = len(c.Mids) >= 2 && routed >= 1 && broadcast >= 1 && reinjected >= 1
	if crewOps > 0 {
		v.Class("crew-ops-in-batch")
	}
	if lateDeliveries > 0 {
		v.Class("delivery-to-machine-created-in-same-batch")
		v.NonTrivial = true
	}
	v.Class(fmt.Sprintf("machines:%d", len(c.Mids)))
	return
}

func TestC14Sio(t *testing.T) {
	if f, known := ev.IsKnown("C14", "C14/sio-repeated-list-member"); known && !ev.Replaying() {
		_ = f
	}
	ev.Run(t, ev.Opts{Property: "C14", Name: "sio", Quick: 1200, Thorough: 60000,
		Rule: "recorder crews (0-6 machines) x 1-6 submitted messages whose 'to' is absent, a known/unknown id, '*', a list with unknown, repeated and non-string members, a service name or a non-string, and whose 'emit' trees (depth <= 3) are re-injected, in a third of the cases with crew operations for the captain inside the trees (recorder machines created and deleted while messages of the same batch, some addressed to them, are still queued); per machine the multiset of received messages and the multiset of reported emission batches must equal the routing model's; non-trivial = >= 2 machines, >= 1 routed, >= 1 broadcast and >= 1 re-injected message"},
		genRoute, checkRoute)
}

// stampBy is what the recorder does to each message it emits: a copy that
// names the emitting machine, so that the emissions of different machines
// reacting to one message can be told apart.
func stampBy(e interface{}, mid string) interface{} {
	c := jsongen.Copy(e)
	if m, ok := c.(map[string]interface{}); ok {
		m["by"] = mid
	}
	return c
}
