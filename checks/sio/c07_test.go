package siocheck

import (
	"context"
	"fmt"
	"testing"
	"time"

	"github.com/Comcast/sheens/core"
	"github.com/Comcast/sheens/match"
	"github.com/Comcast/sheens/sio"
	"pgregory.net/rapid"
	"verif/lib/crewh"
	"verif/lib/ev"
	"verif/lib/jsongen"
	"verif/lib/sm"
)

// ---------------------------------------------------------------- C07 (the sio host)
//
// "Processing returns normally and never crashes the host process, also
// when no control settings are supplied" - one level above core: an sio
// crew whose configuration has no control settings, or a limit of zero or
// less, with machines whose actions and guards fail in the generated
// ways, at known and unknown nodes, with and without bindings, some
// without a specification.

type SioTotalMachine struct {
	Mid    string                 `json:"mid"`
	Node   string                 `json:"node"`
	Bs     map[string]interface{} `json:"bs"`
	NilBs  bool                   `json:"nilBs,omitempty"`
	NoSpec bool                   `json:"noSpec,omitempty"`
}

type SioTotalCase struct {
	Spec     *sm.ASpec         `json:"spec"`
	Machines []SioTotalMachine `json:"machines"`
	Messages []interface{}     `json:"messages"`
	// Limit: 1000 = the crew's configuration has no control settings
	Limit int `json:"limit"`
}

func genSioTotal(t *rapid.T) SioTotalCase {
	// (no emissions: Crew.ProcessMsg re-injects what machines emit until
	// nothing is left - by its own ToDo without a limit - so a generated
	// machine that answers its own answers would go round for ever; that is
	// the specification's doing, not a failure to return)
	o := sm.SpecOpts{Deterministic: true, Fail: 3, GuardFail: 2, UserErrorNode: true, Derive: true, ArrayVar: true}
	var a *sm.ASpec
	if rapid.Bool().Draw(t, "lively") {
		a = sm.GenLivelySpec(t, o)
	} else {
		a = sm.GenSpec(t, o)
	}
	c := SioTotalCase{Spec: a}
	for i := rapid.IntRange(1, 3).Draw(t, "machines"); i > 0; i-- {
		m := SioTotalMachine{Mid: fmt.Sprintf("m%d", i), Node: rapid.SampledFrom(a.NodeNames()).Draw(t, fmt.Sprintf("at%d", i)), Bs: sm.GenBindings(t, fmt.Sprintf("bs%d", i))}
		if rapid.IntRange(0, 7).Draw(t, fmt.Sprintf("odd%d", i)) == 0 {
			m.Node = rapid.SampledFrom([]string{"unknown", "error", ""}).Draw(t, fmt.Sprintf("oddat%d", i))
		}
		if rapid.IntRange(0, 5).Draw(t, fmt.Sprintf("nil%d", i)) == 0 {
			m.NilBs, m.Bs = true, map[string]interface{}{}
		}
		m.NoSpec = rapid.IntRange(0, 9).Draw(t, fmt.Sprintf("nospec%d", i)) == 0
		c.Machines = append(c.Machines, m)
	}
	for i := rapid.IntRange(1, 4).Draw(t, "messages"); i > 0; i-- {
		msg := sm.GenMessageFor(t, a, fmt.Sprintf("msg%d", i))
		if mm, is := msg.(map[string]interface{}); is && rapid.Bool().Draw(t, fmt.Sprintf("to%d", i)) {
			mm["to"] = rapid.SampledFrom([]interface{}{"m1", "m2", "m3", "nobody", []interface{}{"m1", "m2"}}).Draw(t, fmt.Sprintf("tom%d", i))
		}
		c.Messages = append(c.Messages, msg)
	}
	c.Limit = rapid.SampledFrom([]int{1000, 1000, 0, -1, 1, 2, 100}).Draw(t, "limit")
	return c
}

func checkSioTotal(c SioTotalCase) (v ev.Verdict) {
	spec, err := c.Spec.Compiled()
	if err != nil {
		v.Skip, v.SkipReason = true, "spec does not compile"
		return
	}
	ctx, cancel := context.WithTimeout(context.Background(), 20*time.Second)
	defer cancel()
	conf := &sio.CrewConf{Id: "total"}
	if c.Limit != 1000 {
		conf.Ctl = &core.Control{Limit: c.Limit}
	}
	cr, err := sio.NewCrew(ctx, conf, crewh.NewCouplings(16))
	if err != nil {
		v.Failf("NewCrew: %v", err)
		return
	}
	for _, m := range c.Machines {
		st := &core.State{NodeName: m.Node, Bs: match.Bindings(jsongen.CopyMap(m.Bs))}
		if m.NilBs {
			st.Bs = nil
		}
		if m.NoSpec {
			if p := trapSio(func() { err = cr.SetMachine(ctx, m.Mid, nil, st) }); p != "" {
				v.Failf("SetMachine without a specification crashed: %s", p)
				return
			}
			continue
		}
		src, err := crewh.InlineSource(spec)
		if err != nil {
			v.Skip, v.SkipReason = true, "spec has no JSON form"
			return
		}
		if p := trapSio(func() { err = cr.SetMachine(ctx, m.Mid, src, st) }); p != "" {
			v.Failf("SetMachine crashed: %s", p)
			return
		}
	}
	for i, msg := range c.Messages {
		var r *sio.Result
		var perr error
		panicked := ""
		done := make(chan struct{})
		go func() {
			defer close(done)
			panicked = trapSio(func() { r, perr = cr.ProcessMsg(ctx, jsongen.Copy(msg)) })
		}()
		select {
		case <-done:
		case <-time.After(30 * time.Second):
			v.Failf("message %d %s (limit %d; 1000 = no control settings) did not return within 30 s", i, jsongen.Canon(msg), c.Limit)
			return
		}
		if panicked != "" {
			v.Failf("message %d %s (limit %d; 1000 = no control settings) crashed the crew: %s", i, jsongen.Canon(msg), c.Limit, panicked)
			return
		}
		if perr == nil && r == nil {
			v.Failf("message %d: neither a result nor an error", i)
			return
		}
	}
	if c.Limit == 1000 || c.Limit <= 0 {
		v.Class("no-or-odd-control-settings")
	}
	v.NonTrivial = c.Limit == 1000 || c.Limit <= 0
	return
}

func trapSio(f func()) (panicked string) {
	defer func() {
		if x := recover(); x != nil {
			panicked = fmt.Sprint(x)
		}
	}()
	f()
	return ""
}

func TestC07Sio(t *testing.T) {
	ev.Run(t, ev.Opts{Property: "C07", Name: "sio", Quick: 1200, Thorough: 40000, Journal: true,
		Rule: "the sio host: a crew configured without control settings or with a limit of 0, -1, 1, 2, 100; 1-3 machines of a generated specification (throwing / null- and non-object-returning actions and guards, unknown nodes, absent bindings, a tenth without a specification), 1-4 messages (routed to one, several, nobody, everybody) through Crew.ProcessMsg; every call must return (no panic, no hang) with a result or an error; non-trivial = the crew had no or a non-positive limit"},
		genSioTotal, checkSioTotal)
}
