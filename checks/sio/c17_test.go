package siocheck

import (
	"context"
	"encoding/json"
	"fmt"
	"sync"
	"testing"
	"time"

	"github.com/Comcast/sheens/core"
	"github.com/Comcast/sheens/crew"
	"github.com/Comcast/sheens/sio"
	"pgregory.net/rapid"
	"verif/lib/crewh"
	"verif/lib/ev"
	"verif/lib/jsongen"
)

// ---------------------------------------------------------------- C17 (sio)
//
// The harness owns the crew's input channel and plays the crew loop
// itself (msg := <-in; ProcessMsg(msg)), so it decides when a firing is
// received: as long as it has not received, a due timer stays parked
// in its send, and requests issued then are "during the firing".

type STOp struct {
	Kind    string `json:"kind"` // make, cancel, wait, deliver, restart
	Id      string `json:"id,omitempty"`
	DelayMs int    `json:"delay_ms,omitempty"`
	WaitMs  int    `json:"wait_ms,omitempty"`
	// Handler: requests for the timer's own id that the machine which
	// receives the timer's message emits while handling it
	Handler []STOp `json:"handler,omitempty"`
}

type SioTimerCase struct {
	Ops []STOp `json:"ops"`
}

var sioDelays = []int{1, 3, 10, 40, 5000}

func genSioTimers(t *rapid.T) SioTimerCase {
	c := SioTimerCase{}
	_, knownWindow := ev.IsKnown("C17", "C17/sio/fire-window")
	for i := rapid.IntRange(1, 10).Draw(t, "n"); i > 0; i-- {
		l := fmt.Sprintf("o%d", i)
		kinds := []string{"make", "make", "make", "cancel", "wait", "deliver", "deliver"}
		if !knownWindow {
			kinds = append(kinds, "park", "park")
		}
		if rapid.IntRange(0, 9).Draw(t, l+".rs") == 0 {
			// "restart": once the short timers have been delivered;
			// "restartNow": at once, so that restored timers become due
			// and fire in the new crew
			kinds = []string{"restart", "restartNow"}
		} else if rapid.IntRange(0, 14).Draw(t, l+".burst") == 0 {
			// many timers pending at once (more than any small fixed
			// capacity), then none
			kinds = []string{"burst"}
		}
		op := STOp{Kind: rapid.SampledFrom(kinds).Draw(t, l+".k"), Id: rapid.SampledFrom([]string{"a", "b", "c"}).Draw(t, l+".id")}
		switch op.Kind {
		case "make":
			op.DelayMs = rapid.SampledFrom(sioDelays).Draw(t, l+".d")
			if op.DelayMs <= 40 && rapid.IntRange(0, 2).Draw(t, l+".h") == 0 {
				// at most one make per handler: a second request for an
				// id that is pending again is a duplicate
				shape := rapid.SampledFrom([][]string{{"make"}, {"make"}, {"cancel"}, {"cancel", "make"}, {"make", "cancel"}}).Draw(t, l+".hs")
				for j, hk := range shape {
					hop := STOp{Kind: hk, Id: op.Id}
					if hk == "make" {
						hop.DelayMs = rapid.SampledFrom([]int{1, 3, 10, 5000}).Draw(t, fmt.Sprintf("%s.hd%d", l, j))
					}
					op.Handler = append(op.Handler, hop)
				}
			}
		case "wait", "park":
			op.WaitMs = rapid.SampledFrom([]int{0, 2, 5, 15, 50}).Draw(t, l+".w")
		}
		c.Ops = append(c.Ops, op)
	}
	return c
}

type sioInc struct {
	n         int
	id        string
	due       time.Time
	delay     int
	cancelled bool
	delivered int
	handler   []STOp
	children  []*sioInc // timers its handler makes (accepted when it is delivered)
	accepted  bool
}

type sioHarness struct {
	ctx      context.Context
	cancel   context.CancelFunc
	c        *sio.Crew
	cp       *crewh.Couplings
	incs     []*sioInc
	live     map[string]*sioInc
	bad      string
	store    shadowStore
	mu       sync.Mutex
	reuse    int
	window   int
	restarts int
}

func (h *sioHarness) failf(f string, a ...interface{}) {
	if h.bad == "" {
		h.bad = fmt.Sprintf(f, a...)
	}
}

func newSioHarness() (*sioHarness, error) {
	h := &sioHarness{live: map[string]*sioInc{}, store: shadowStore{}}
	if err := h.boot(nil); err != nil {
		return nil, err
	}
	return h, nil
}

// boot starts a crew (from the store's machines, if any).
func (h *sioHarness) boot(ms map[string]*crew.Machine) error {
	h.ctx, h.cancel = context.WithCancel(context.Background())
	cp := &crewh.Couplings{In: make(chan interface{}), Out: make(chan *sio.Result, 16)} // unbuffered input: a due timer parks in its send
	c, err := sio.NewCrew(h.ctx, &sio.CrewConf{Id: "t", Ctl: &core.Control{Limit: 100}}, cp)
	if err != nil {
		return err
	}
	h.c, h.cp = c, cp
	for mid, m := range ms {
		if err := c.SetMachine(h.ctx, mid, m.SpecSource, m.State); err != nil {
			return err
		}
	}
	if _, have := c.Machines["r"]; !have {
		src, err := crewh.InlineSource(recorderSpec())
		if err != nil {
			return err
		}
		if err := c.SetMachine(h.ctx, "r", src, nil); err != nil {
			return err
		}
	}
	return nil
}

func (h *sioHarness) process(msg interface{}) *sio.Result {
	h.c.Lock()
	r, err := h.c.ProcessMsg(h.ctx, msg)
	h.c.Unlock()
	if err != nil {
		h.failf("ProcessMsg: %v", err)
		return nil
	}
	h.store.fold(r.Changed)
	return r
}

// timersError reports the error the timers machine noted for the
// request just processed (it keeps it in its bindings until the next
// successful request).
func (h *sioHarness) timersError() string {
	h.c.Lock()
	defer h.c.Unlock()
	m := h.c.Machines["timers"]
	if m == nil || m.State == nil {
		return "no timers machine"
	}
	if e, ok := m.State.Bs["error"]; ok {
		return fmt.Sprint(e)
	}
	return ""
}

func (h *sioHarness) pending() map[string]bool {
	out := map[string]bool{}
	h.c.Lock()
	defer h.c.Unlock()
	m := h.c.Machines["timers"]
	if m == nil || m.State == nil {
		return out
	}
	js, err := json.Marshal(m.State.Bs["timers"])
	if err != nil {
		h.failf("timers state not serialisable: %v", err)
		return out
	}
	var x map[string]interface{}
	json.Unmarshal(js, &x)
	for id := range x {
		out[id] = true
	}
	return out
}

func (h *sioHarness) make(op STOp) {
	prev := h.live[op.Id]
	if prev != nil && !prev.cancelled && prev.delivered == 0 {
		// a timer with this id is pending (its message has not been
		// received): a second request for a pending id is not part of
		// the histories the property talks about
		return
	}
	n := len(h.incs) + 1
	inc := &sioInc{n: n, id: op.Id, delay: op.DelayMs, handler: op.Handler, accepted: true}
	h.incs = append(h.incs, inc)
	tmsg := map[string]interface{}{"to": "r", "inc": float64(n)}
	var emit []interface{}
	for _, hop := range op.Handler {
		switch hop.Kind {
		case "make":
			child := &sioInc{n: len(h.incs) + 1, id: hop.Id, delay: hop.DelayMs}
			h.incs = append(h.incs, child)
			inc.children = append(inc.children, child)
			emit = append(emit, map[string]interface{}{"to": "timers", "makeTimer": map[string]interface{}{
				"in": fmt.Sprintf("%dms", hop.DelayMs), "id": hop.Id, "msg": map[string]interface{}{"to": "r", "inc": float64(child.n)}}})
		case "cancel":
			inc.children = append(inc.children, nil)
			emit = append(emit, map[string]interface{}{"to": "timers", "cancelTimer": hop.Id})
		}
	}
	if emit != nil {
		tmsg["emit"] = emit
	}
	t0 := time.Now()
	msg := map[string]interface{}{"to": "timers", "makeTimer": map[string]interface{}{
		"in": fmt.Sprintf("%dms", op.DelayMs), "id": op.Id, "msg": tmsg}}
	if h.process(msg) == nil {
		return
	}
	if e := h.timersError(); e != "" {
		h.failf("makeTimer %q was refused: %s", op.Id, e)
		return
	}
	inc.due = t0.Add(time.Duration(op.DelayMs) * time.Millisecond)
	if prev != nil {
		h.reuse++
	}
	h.live[op.Id] = inc
}

func (h *sioHarness) cancelTimer(id string) {
	target := h.live[id]
	parked := target != nil && !target.cancelled && target.delivered == 0 && !time.Now().Before(target.due)
	if h.process(map[string]interface{}{"to": "timers", "cancelTimer": id}) == nil {
		return
	}
	e := h.timersError()
	if e == "" {
		if target == nil || target.cancelled || target.delivered > 0 {
			h.failf("cancelTimer %q succeeded although no such timer is pending", id)
			return
		}
		target.cancelled = true
		if parked {
			h.window++
		}
		return
	}
	if target != nil && !target.cancelled && target.delivered == 0 && target.due.After(time.Now().Add(50*time.Millisecond)) {
		h.failf("cancelTimer %q failed (%s) although the timer is pending", id, e)
	}
}

// deliver receives at most one firing from the input channel and
// processes it, as the crew loop would.
func (h *sioHarness) deliver(wait time.Duration) bool {
	select {
	case msg := <-h.cp.In:
		now := time.Now()
		// functions are resolved by ProcessMsg; peek at plain messages
		r := h.process(msg)
		if r == nil {
			return true
		}
		// which incarnation was it?  the recorder's log tells
		h.c.Lock()
		log, _ := h.c.Machines["r"].State.Bs["log"].([]interface{})
		h.c.Unlock()
		seen := map[int]int{}
		for _, x := range log {
			if m, ok := x.(map[string]interface{}); ok {
				if f, ok := jsongen.Copy(m["inc"]).(float64); ok {
					seen[int(f)]++
				} else if i64, ok := m["inc"].(int64); ok {
					seen[int(i64)]++
				}
			}
		}
		for _, inc := range h.incs {
			if seen[inc.n] > inc.delivered {
				inc.delivered = seen[inc.n]
				if inc.delivered > 1 {
					h.failf("timer %q (incarnation %d) was delivered %d times", inc.id, inc.n, inc.delivered)
				}
				if now.Before(inc.due) {
					h.failf("timer %q was delivered %v before its due time", inc.id, inc.due.Sub(now))
				}
				if inc.cancelled {
					h.failf("timer %q was delivered although a cancelTimer had succeeded before the message was received", inc.id)
				}
				if !inc.accepted {
					h.failf("timer %q (incarnation %d) was delivered but never accepted", inc.id, inc.n)
				}
				// what its handler requested (for its own id, which is
				// free from the moment the timer fired)
				for i, hop := range inc.handler {
					h.window++
					switch hop.Kind {
					case "make":
						child := inc.children[i]
						if cur := h.live[hop.Id]; cur != nil && cur != inc && !cur.cancelled && cur.delivered == 0 {
							continue // id taken meanwhile by the requester: duplicate, not judged
						}
						child.accepted = true
						child.due = now.Add(time.Duration(child.delay) * time.Millisecond)
						h.live[hop.Id] = child
					case "cancel":
						if cur := h.live[hop.Id]; cur != nil && cur != inc && cur.accepted && !cur.cancelled && cur.delivered == 0 {
							cur.cancelled = true // a timer made earlier in this handler
						}
					}
				}
			}
		}
		return true
	case <-time.After(wait):
		return false
	}
}

func (h *sioHarness) settle() { time.Sleep(3 * time.Millisecond) }

// reported: the pending set as the crew has reported it to its host
// (the store folded from Result.Changed, which is what a restart
// resumes from).
func (h *sioHarness) reported() map[string]bool {
	out := map[string]bool{}
	m := h.store["timers"]
	if m == nil || m.State == nil {
		return out
	}
	js, err := json.Marshal(m.State.Bs["timers"])
	if err != nil {
		h.failf("reported timers state not serialisable: %v", err)
		return out
	}
	var x map[string]interface{}
	json.Unmarshal(js, &x)
	for id := range x {
		out[id] = true
	}
	return out
}

func (h *sioHarness) checkPending(where string) {
	h.settle()
	h.checkPendingIn(where, "the crew's timers state", h.pending())
	if h.bad == "" {
		h.checkPendingIn(where, "the state the crew reported to its host", h.reported())
	}
}

func (h *sioHarness) checkPendingIn(where, what string, p map[string]bool) {
	where = where + " (" + what + ")"
	now := time.Now()
	ids := map[string]interface{}{"a": nil, "b": nil, "c": nil}
	for id := range h.live {
		ids[id] = nil
	}
	for id := range p {
		ids[id] = nil
	}
	for _, id := range jsongen.SortedKeys(ids) {
		inc := h.live[id]
		if inc == nil {
			if p[id] {
				h.failf("%s: %q is reported pending but was never accepted", where, id)
			}
			continue
		}
		switch {
		case inc.cancelled:
			if p[id] {
				h.failf("%s: %q is reported pending although it was cancelled", where, id)
			}
		case inc.delivered > 0:
			if p[id] {
				h.failf("%s: %q is reported pending although its message was delivered", where, id)
			}
		case inc.due.After(now.Add(50 * time.Millisecond)):
			if !p[id] {
				h.failf("%s: %q (due in %v) is not reported pending", where, id, time.Until(inc.due))
			}
		}
	}
}

func (h *sioHarness) restart() {
	// stop the crew (its timer goroutines end with the context) and
	// boot a new one from the store, as siostd would
	h.settle()
	h.cancel()
	time.Sleep(2 * time.Millisecond)
	js, err := json.Marshal(h.store)
	if err != nil {
		h.failf("store not serialisable: %v", err)
		return
	}
	var ms map[string]*crew.Machine
	if err := json.Unmarshal(js, &ms); err != nil {
		h.failf("store unreadable: %v", err)
		return
	}
	if err := h.boot(ms); err != nil {
		h.failf("reboot: %v", err)
		return
	}
	h.restarts++
	// parked firings of the old crew are gone with it; what was
	// delivered stays delivered, the rest resumes
}

func checkSioTimers(c SioTimerCase) (v ev.Verdict) {
	h, err := newSioHarness()
	if err != nil {
		v.Failf("setup: %v", err)
		return
	}
	defer func() { h.cancel() }()
	for _, op := range c.Ops {
		switch op.Kind {
		case "make":
			h.make(op)
		case "cancel":
			h.cancelTimer(op.Id)
		case "wait":
			time.Sleep(time.Duration(op.WaitMs) * time.Millisecond)
		case "deliver":
			h.deliver(2 * time.Millisecond)
		case "park":
			// let due timers park in their send, then act "during the firing"
			time.Sleep(time.Duration(op.WaitMs) * time.Millisecond)
			if inc := h.live[op.Id]; inc != nil && !inc.cancelled && inc.delivered == 0 && inc.delay < 1000 {
				for time.Now().Before(inc.due.Add(3 * time.Millisecond)) {
					time.Sleep(time.Millisecond)
				}
				h.cancelTimer(op.Id)
			}
		case "burst":
			for i := 0; i < 12; i++ {
				h.make(STOp{Kind: "make", Id: fmt.Sprintf("t%d", i), DelayMs: 5000})
			}
			h.checkPending("in the burst")
			for i := 0; i < 12 && h.bad == ""; i++ {
				h.cancelTimer(fmt.Sprintf("t%d", i))
			}
		case "restartNow":
			if _, known := ev.IsKnown("C17", "C17/sio/restart"); !known {
				h.restart()
			}
		case "restart":
			if _, known := ev.IsKnown("C17", "C17/sio/restart"); !known {
				// only between creation and due time of long timers; short
				// ones are delivered first
				for h.deliver(60 * time.Millisecond) {
				}
				h.restart()
			}
		}
		if h.bad != "" {
			break
		}
		if op.Kind != "wait" {
			h.checkPending("after " + ev.JS(op))
		}
	}
	// quiescence: deliver everything that is due
	deadline := time.Now().Add(6 * time.Second)
	for h.bad == "" {
		waiting := 0
		for _, inc := range h.incs {
			if inc.accepted && !inc.cancelled && inc.delivered == 0 && inc.delay < 1000 {
				waiting++
			}
		}
		if waiting == 0 {
			break
		}
		if time.Now().After(deadline) {
			for _, inc := range h.incs {
				if inc.accepted && !inc.cancelled && inc.delivered == 0 && inc.delay < 1000 {
					h.failf("timer %q (incarnation %d, %d ms) was accepted and never cancelled, but its message has not arrived %v after it was due", inc.id, inc.n, inc.delay, time.Since(inc.due))
				}
			}
			break
		}
		h.deliver(20 * time.Millisecond)
	}
	if h.bad == "" {
		// nothing else arrives
		if h.deliver(15 * time.Millisecond) {
			for h.deliver(5 * time.Millisecond) {
			}
		}
		h.checkPending("at quiescence")
		for _, id := range []string{"a", "b", "c"} {
			if inc := h.live[id]; inc != nil && !inc.cancelled && inc.delivered == 0 {
				h.cancelTimer(id)
				if !inc.cancelled && h.bad == "" {
					h.failf("timer %q is pending but cannot be cancelled", id)
				}
			}
		}
		h.settle()
		if p := h.pending(); len(p) > 0 && h.bad == "" {
			h.failf("at the end, with everything delivered or cancelled, the pending set is %v", p)
		}
		// the crew's state is still serialisable
		h.c.Lock()
		for mid, m := range h.c.Machines {
			if _, err := json.Marshal(m.State); err != nil {
				h.failf("machine %q state is not serialisable after timer activity: %v", mid, err)
			}
		}
		h.c.Unlock()
	}
	if h.bad != "" {
		v.Failf("%s", h.bad)
		return
	}
	v.NonTrivial = h.window > 0 || h.reuse > 0 || h.restarts > 0
	if h.window > 0 {
		v.Class("request-during-firing")
	}
	if h.reuse > 0 {
		v.Class("id-reuse")
	}
	if h.restarts > 0 {
		v.Class("restart")
	}
	return
}

func TestC17SioTimers(t *testing.T) {
	ev.Run(t, ev.Opts{Property: "C17", Name: "sio", Quick: 120, Thorough: 4000, ShrinkTime: "15s",
		Rule: "sio crew timers driven through the timers machine with the harness playing the crew loop on an unbuffered input channel: make / cancel / wait / deliver, requests issued while a due timer is parked in its send (during the firing), restart from the reported state; model: never early, at most once, never after a cancel that succeeded before the message was received, exactly once otherwise, pending = accepted - delivered - cancelled, id reusable; non-trivial = a request during a firing, id reuse, or a restart"},
		genSioTimers, checkSioTimers)
}

// ---- the real crew loop under the race detector

type LoopCase struct {
	Timers   []STOp `json:"timers"`   // make ops (short delays), some cancelled right away
	Messages int    `json:"messages"` // ordinary messages sent meanwhile
}

func genLoop(t *rapid.T) LoopCase {
	c := LoopCase{Messages: rapid.IntRange(0, 20).Draw(t, "msgs")}
	for i := rapid.IntRange(1, 12).Draw(t, "n"); i > 0; i-- {
		op := STOp{Kind: rapid.SampledFrom([]string{"make", "make", "make", "makeCancel"}).Draw(t, fmt.Sprintf("k%d", i)),
			Id: fmt.Sprintf("t%d", i), DelayMs: rapid.SampledFrom([]int{0, 1, 1, 2, 5, 10}).Draw(t, fmt.Sprintf("d%d", i))}
		if op.Kind == "makeCancel" && op.DelayMs >= 5 {
			// "cancelled long before it is due": long enough that no
			// scheduling delay of the harness or the loop can let it fire
			// before the cancel request is processed
			op.DelayMs = 3000
		}
		c.Timers = append(c.Timers, op)
	}
	return c
}

func checkLoop(c LoopCase) (v ev.Verdict) {
	ctx, cancel := context.WithCancel(context.Background())
	defer cancel()
	cp := &crewh.Couplings{In: make(chan interface{}), Out: make(chan *sio.Result, 4096)}
	cr, err := sio.NewCrew(ctx, &sio.CrewConf{Id: "loop", Ctl: &core.Control{Limit: 100}}, cp)
	if err != nil {
		v.Failf("NewCrew: %v", err)
		return
	}
	src, _ := crewh.InlineSource(recorderSpec())
	if err := cr.SetMachine(ctx, "r", src, nil); err != nil {
		v.Failf("SetMachine: %v", err)
		return
	}
	done := make(chan struct{})
	go func() { cr.Loop(ctx); close(done) }()
	// collect what the crew reports
	var mu sync.Mutex
	delivered := map[string]int{}
	var lastTimers interface{}
	collected := make(chan struct{})
	go func() {
		defer close(collected)
		for {
			select {
			case r := <-cp.Out:
				mu.Lock()
				if ch, ok := r.Changed["r"]; ok && ch.State != nil {
					if log, ok := ch.State.Bs["log"].([]interface{}); ok {
						counts := map[string]int{}
						for _, x := range log {
							if m, ok := x.(map[string]interface{}); ok {
								if id, ok := m["timer"].(string); ok {
									counts[id]++
								}
							}
						}
						delivered = counts
					}
				}
				if ch, ok := r.Changed["timers"]; ok && ch.State != nil {
					js, _ := json.Marshal(ch.State.Bs["timers"])
					var x interface{}
					json.Unmarshal(js, &x)
					lastTimers = x
				}
				mu.Unlock()
			case <-ctx.Done():
				return
			}
		}
	}()
	send := func(m interface{}) {
		select {
		case cp.In <- m:
		case <-time.After(5 * time.Second):
		}
	}
	expect := map[string]int{}
	sent := 0
	for i, op := range c.Timers {
		send(map[string]interface{}{"to": "timers", "makeTimer": map[string]interface{}{
			"in": fmt.Sprintf("%dms", op.DelayMs), "id": op.Id, "msg": map[string]interface{}{"to": "r", "timer": op.Id}}})
		if op.Kind == "makeCancel" && op.DelayMs >= 1000 {
			send(map[string]interface{}{"to": "timers", "cancelTimer": op.Id})
		} else if op.Kind == "makeCancel" {
			expect[op.Id] = -1 // cancelled around its due time: 0 or 1 deliveries
		} else {
			expect[op.Id] = 1
		}
		if op.Kind == "makeCancel" && op.DelayMs < 1000 {
			send(map[string]interface{}{"to": "timers", "cancelTimer": op.Id})
		}
		for sent < (i+1)*c.Messages/len(c.Timers) {
			send(map[string]interface{}{"to": "r", "plain": float64(sent)})
			sent++
		}
	}
	// wait until every expected message has arrived
	deadline := time.Now().Add(8 * time.Second)
	for {
		mu.Lock()
		missing := 0
		for id, n := range expect {
			if n == 1 && delivered[id] < 1 {
				missing++
			}
		}
		mu.Unlock()
		if missing == 0 || time.Now().After(deadline) {
			break
		}
		time.Sleep(2 * time.Millisecond)
	}
	time.Sleep(10 * time.Millisecond)
	// flush reports until the reported timers state is empty (every
	// timer was short or has been cancelled, so it has to become empty;
	// how soon depends on the machine's load, so this is a bounded wait
	// and not a fixed pause)
	for flushUntil := time.Now().Add(6 * time.Second); ; {
		send(map[string]interface{}{"to": "r", "plain": "last"})
		time.Sleep(5 * time.Millisecond)
		mu.Lock()
		m, _ := lastTimers.(map[string]interface{})
		mu.Unlock()
		if len(m) == 0 || time.Now().After(flushUntil) {
			break
		}
	}
	cancel()
	<-done
	<-collected
	mu.Lock()
	defer mu.Unlock()
	for id, n := range expect {
		got := delivered[id]
		if n == 1 && got != 1 {
			v.Failf("timer %q was made and never cancelled; its message was delivered %d times", id, got)
			return
		}
		if n == -1 && got > 1 {
			v.Failf("timer %q was delivered %d times", id, got)
			return
		}
	}
	for _, op := range c.Timers {
		if op.Kind == "makeCancel" && op.DelayMs >= 1000 && delivered[op.Id] > 0 {
			v.Failf("timer %q was cancelled right after it was made (due in %d ms) and yet delivered", op.Id, op.DelayMs)
			return
		}
	}
	if m, ok := lastTimers.(map[string]interface{}); ok && len(m) > 0 {
		v.Failf("everything fired or was cancelled, yet the last reported timers state lists %v", m)
		return
	}
	v.NonTrivial = len(c.Timers) >= 2
	v.Class(fmt.Sprintf("timers:%d", len(c.Timers)/4*4))
	return
}

func TestC17SioLoop(t *testing.T) {
	ev.Run(t, ev.Opts{Property: "C17", Name: "sioloop", Quick: 150, Thorough: 5000, ShrinkTime: "5s", Journal: true,
		Rule: "the real sio Crew.Loop under the race detector: 1-12 short timers (0-10 ms) made through the timers machine, some cancelled right away, interleaved with ordinary messages; every timer not cancelled is delivered exactly once, a timer cancelled well before its due time never, the last reported timers state is empty, and the race detector stays silent; non-trivial = >= 2 timers"},
		genLoop, checkLoop)
}
