package siocheck

import (
	"context"
	"encoding/json"
	"fmt"
	"hash/fnv"
	"sort"
	"strings"
	"sync"
	"testing"

	"github.com/Comcast/sheens/core"
	"github.com/Comcast/sheens/crew"
	"github.com/Comcast/sheens/interpreters"
	"github.com/Comcast/sheens/match"
	"github.com/Comcast/sheens/sio"
	"pgregory.net/rapid"
	"verif/lib/crewh"
	"verif/lib/ev"
	"verif/lib/jsongen"
)

// ---------------------------------------------------------------- C15

// counterSpec: a machine that adds up what it is sent; version-stamped.
//
// Versions above 10 behave like version ver-10 but all carry the same
// label ("v0"): a spec replaced by a different one under an unchanged
// name and version.
//
// Versions above 20 behave like version ver-20 but have no "parked" node:
// a machine parked under an older version finds itself at a node its new
// specification does not have.
func counterSpec(ver int) *core.Spec {
	if ver == 99 {
		// a specification that cannot be had: its action does not compile;
		// the operation that brings it fails
		return &core.Spec{Name: "counter", Version: "v99", Nodes: map[string]*core.Node{
			"start": {ActionSource: &core.ActionSource{Interpreter: "ecmascript", Source: "this is not ( a script"},
				Branches: &core.Branches{Type: "bindings", Branches: []*core.Branch{{Target: "start"}}}}}}
	}
	label := fmt.Sprintf("v%d", ver)
	slim := false
	handling := false
	if ver > 30 {
		// versions 31, 32: spec-level options matter - an increment of 3
		// makes the action fail, and the specification routes action
		// errors through its branches (actionErrorBranches)
		ver -= 30
		handling = true
	} else if ver > 20 {
		ver -= 20
		slim = true
	} else if ver > 10 {
		ver -= 10
		label = "v0"
	}
	src := fmt.Sprintf(`
var bs = _.bindings;
var c = (typeof bs.count === 'number' ? bs.count : 0) + (typeof bs["?n"] === 'number' ? bs["?n"] : 1) * %d;
_.out({to: "sink", count: c, ver: %d});
return {count: c, ver: %d};
`, ver, ver, ver)
	spec := &core.Spec{Name: "counter", Version: label, Nodes: map[string]*core.Node{
		"start": {Branches: &core.Branches{Type: "message", Branches: []*core.Branch{
			{Pattern: map[string]interface{}{"inc": "?n"}, Target: "add"},
			{Pattern: map[string]interface{}{"park": true}, Target: "parked"}}}},
		"add": {ActionSource: &core.ActionSource{Interpreter: "ecmascript", Source: src},
			Branches: &core.Branches{Type: "bindings", Branches: []*core.Branch{{Target: "start"}}}},
		"parked": {Branches: &core.Branches{Type: "message", Branches: []*core.Branch{
			{Pattern: map[string]interface{}{"unpark": true}, Target: "start"}}}},
	}}
	if handling {
		spec.ActionErrorBranches = true
		spec.Doc = "routes action errors through its branches"
		add := spec.Nodes["add"]
		add.ActionSource.Source = `if (_.bindings["?n"] === 3) { throw new Error("three"); }` + add.ActionSource.Source.(string)
		add.Branches.Branches = []*core.Branch{
			{Pattern: map[string]interface{}{"actionError": "?err", "count": "?c"}, Target: "failed"},
			{Pattern: map[string]interface{}{"actionError": "?err"}, Target: "failed"},
			{Target: "start"}}
		spec.Nodes["failed"] = &core.Node{
			ActionSource: &core.ActionSource{Interpreter: "ecmascript", Source: `var c = _.bindings["?c"]; return (typeof c === 'number') ? {count: c, failures: true} : {failures: true};`},
			Branches:     &core.Branches{Type: "bindings", Branches: []*core.Branch{{Target: "start"}}}}
	}
	if slim {
		delete(spec.Nodes, "parked")
		spec.Nodes["start"].Branches.Branches = spec.Nodes["start"].Branches.Branches[:1]
	}
	return spec
}

type COp struct {
	Kind  string  `json:"kind"` // create, setState, setSpec, delete
	Mid   string  `json:"mid"`
	Ver   int     `json:"ver,omitempty"`
	Count float64 `json:"count,omitempty"`
	Node  string  `json:"node,omitempty"`
	State bool    `json:"state,omitempty"` // create with an explicit state
}

type Round struct {
	Direct  []COp       `json:"direct,omitempty"`  // SetMachine/DeleteMachine calls before the message
	Captain []COp       `json:"captain,omitempty"` // ops sent as one captain message
	Msg     interface{} `json:"msg,omitempty"`     // ordinary message (when there is no captain message)
	// Timer: after the round's message, a request to the timers machine
	// (itself a machine of the crew, whose state - the pending timers -
	// is reported and stored like any other); the timers are due in an
	// hour, none fires within a case
	Timer *TimerOp `json:"timer,omitempty"`
}

type TimerOp struct {
	Kind string `json:"kind"` // make, cancel
	Id   string `json:"id"`
}

func timerMsg(op *TimerOp) interface{} {
	if op.Kind == "cancel" {
		return map[string]interface{}{"to": "timers", "cancelTimer": op.Id}
	}
	return map[string]interface{}{"to": "timers", "makeTimer": map[string]interface{}{
		"in": "1h", "id": op.Id, "msg": map[string]interface{}{"to": "nobody", "fired": op.Id}}}
}

// pendingView: the ids of the timers a timers machine's state lists.
func pendingView(st *core.State) string {
	if st == nil {
		return ""
	}
	js, err := json.Marshal(st.Bs["timers"])
	if err != nil {
		return "unserialisable"
	}
	var x map[string]interface{}
	json.Unmarshal(js, &x)
	ids := make([]string, 0, len(x))
	for id := range x {
		ids = append(ids, id)
	}
	sort.Strings(ids)
	return strings.Join(ids, ",")
}

type CrewHistory struct {
	Rounds  []Round `json:"rounds"`
	Restart int     `json:"restart"` // boundary (number of rounds before the restart); -1 = none
}

var c15mids = []string{"a", "b", "c"}

func genCOp(t *rapid.T, label string, existingStateOK, recreateOK bool) COp {
	kinds := []string{"create", "create", "setSpec", "delete"}
	if existingStateOK {
		kinds = append(kinds, "setState", "setState")
	}
	op := COp{Kind: rapid.SampledFrom(kinds).Draw(t, label+".kind"), Mid: rapid.SampledFrom(c15mids).Draw(t, label+".mid")}
	op.Ver = rapid.SampledFrom([]int{1, 2, 3, 1, 2, 3, 11, 12, 13, 21, 22, 31, 32}).Draw(t, label+".ver")
	if (op.Kind == "create" || op.Kind == "setSpec") && rapid.IntRange(0, 11).Draw(t, label+".bad") == 4 {
		op.Ver = 99
	}
	if op.Kind == "setState" || (op.Kind == "create" && rapid.Bool().Draw(t, label+".ws")) {
		op.State = true
		op.Count = float64(rapid.IntRange(0, 50).Draw(t, label+".count"))
		op.Node = rapid.SampledFrom([]string{"start", "start", "parked"}).Draw(t, label+".node")
	}
	return op
}

// loneFailing: a captain message with an operation that fails holds that
// operation only.
func loneFailing(ops []COp) []COp {
	for _, op := range ops {
		if op.Ver == 99 && op.Kind != "delete" && op.Kind != "setState" {
			return []COp{op}
		}
	}
	return ops
}

func genCrewHistory(t *rapid.T) CrewHistory {
	_, k1 := ev.IsKnown("C15", "C15/setstate-existing")
	_, k2 := ev.IsKnown("C15", "C15/delete-recreate")
	h := CrewHistory{Restart: -1}
	n := rapid.IntRange(2, 10).Draw(t, "rounds")
	for i := 0; i < n; i++ {
		r := Round{}
		l := fmt.Sprintf("r%d", i)
		switch rapid.IntRange(0, 5).Draw(t, l+".kind") {
		case 0, 1:
			for j := rapid.IntRange(1, 3).Draw(t, l+".nc"); j > 0; j-- {
				r.Captain = append(r.Captain, genCOp(t, fmt.Sprintf("%s.c%d", l, j), !k1, !k2))
			}
		case 2:
			for j := rapid.IntRange(1, 3).Draw(t, l+".nd"); j > 0; j-- {
				r.Direct = append(r.Direct, genCOp(t, fmt.Sprintf("%s.d%d", l, j), !k1, !k2))
			}
			fallthrough
		default:
			m := map[string]interface{}{}
			switch rapid.IntRange(0, 5).Draw(t, l+".mk") {
			case 0:
				m["park"] = true
			case 1:
				m["unpark"] = true
			default:
				m["inc"] = float64(rapid.IntRange(1, 5).Draw(t, l+".inc"))
			}
			if rapid.Bool().Draw(t, l+".routed") {
				m["to"] = rapid.SampledFrom(c15mids).Draw(t, l+".to")
			}
			r.Msg = m
		}
		// an operation that fails ends the captain's message there; which
		// of its other updates were applied before depends on the order
		// the captain happens to take them in: such a message holds that
		// one operation only
		r.Captain = loneFailing(r.Captain)
		// re-creation means creating the machine again (with a spec):
		// within a round, what follows a delete of a machine is a create
		for _, ops := range [][]COp{r.Direct, r.Captain} {
			deleted := map[string]bool{}
			for j := range ops {
				if ops[j].Kind == "delete" {
					deleted[ops[j].Mid] = true
				} else if deleted[ops[j].Mid] && ops[j].Kind == "setState" {
					ops[j].Kind = "create"
				}
			}
		}
		if rapid.IntRange(0, 2).Draw(t, l+".timer") == 1 {
			r.Timer = &TimerOp{Kind: rapid.SampledFrom([]string{"make", "make", "cancel"}).Draw(t, l+".tk"), Id: rapid.SampledFrom([]string{"t1", "t2", "t3"}).Draw(t, l+".tid")}
		}
		h.Rounds = append(h.Rounds, r)
	}
	if rapid.IntRange(0, 2).Draw(t, "restart") > 0 {
		h.Restart = rapid.IntRange(1, n-1).Draw(t, "restartAt")
	}
	return h
}

func specSourceFor(ver int) *crew.SpecSource {
	src, err := crewh.InlineSource(counterSpec(ver))
	if err != nil {
		panic(err)
	}
	return src
}

func stateFor(op COp) *core.State {
	if !op.State {
		return nil
	}
	return &core.State{NodeName: op.Node, Bs: match.Bindings{"count": op.Count}}
}

func applyDirect(ctx context.Context, c *sio.Crew, op COp) error {
	if op.Ver == 99 && op.Kind != "delete" && op.Kind != "setState" {
		// (the operation is refused)
		if op.Kind == "create" {
			c.SetMachine(ctx, op.Mid, specSourceFor(op.Ver), stateFor(op))
		} else {
			c.SetMachine(ctx, op.Mid, specSourceFor(op.Ver), nil)
		}
		return nil
	}
	switch op.Kind {
	case "create":
		return c.SetMachine(ctx, op.Mid, specSourceFor(op.Ver), stateFor(op))
	case "setSpec":
		return c.SetMachine(ctx, op.Mid, specSourceFor(op.Ver), nil)
	case "setState":
		return c.SetMachine(ctx, op.Mid, nil, stateFor(op))
	case "delete":
		return c.DeleteMachine(ctx, op.Mid)
	}
	return nil
}

// captainMsg renders ops as one crew-op message.  A crew op applies
// its updates before its deletes, and one update per machine.
func captainMsg(ops []COp) interface{} {
	update := map[string]interface{}{}
	var del []interface{}
	for _, op := range ops {
		switch op.Kind {
		case "delete":
			del = append(del, op.Mid)
		default:
			m := map[string]interface{}{}
			if op.Kind != "setState" {
				js, _ := json.Marshal(specSourceFor(op.Ver))
				var x interface{}
				json.Unmarshal(js, &x)
				m["spec"] = x
			}
			if st := stateFor(op); st != nil {
				js, _ := json.Marshal(st)
				var x interface{}
				json.Unmarshal(js, &x)
				m["state"] = x
			}
			update[op.Mid] = m
		}
	}
	msg := map[string]interface{}{"to": "captain"}
	if len(update) > 0 {
		msg["update"] = update
	}
	if len(del) > 0 {
		msg["delete"] = del
	}
	return msg
}

type shadowStore map[string]*crew.Machine

// fold applies reported changes the way sio's Stdio coupling does.
func (s shadowStore) fold(changed map[string]*sio.Changed) {
	for mid, m := range changed {
		if m.Deleted {
			delete(s, mid)
			continue
		}
		n, have := s[mid]
		if !have {
			n = &crew.Machine{}
			s[mid] = n
		}
		if m.State != nil {
			n.State = m.State.Copy()
		}
		if m.SpecSrc != nil {
			n.SpecSource = m.SpecSrc.Copy()
		}
	}
}

var (
	digestMu sync.Mutex
	digests  = map[string]string{}
)

// sourceDigest identifies the machine an inline specification describes:
// a digest of the specification's JSON form after compilation (compiling
// fills in defaults - the error node, branching types - so a compiled
// specification and the text it was compiled from get the same digest).
func sourceDigest(spec *core.Spec) string {
	js, err := json.Marshal(spec)
	if err != nil {
		return "unserialisable"
	}
	digestMu.Lock()
	defer digestMu.Unlock()
	if d, have := digests[string(js)]; have {
		return d
	}
	d := "uncompilable"
	var cp core.Spec
	if json.Unmarshal(js, &cp) == nil && cp.Compile(context.Background(), interpreters.Standard(), true) == nil {
		if js2, err := json.Marshal(&cp); err == nil {
			var x interface{}
			if json.Unmarshal(js2, &x) == nil {
				h := fnv.New32a()
				h.Write([]byte(jsongen.Canon(x)))
				d = fmt.Sprintf("%08x", h.Sum32())
			}
		}
	}
	digests[string(js)] = d
	return d
}

func machineView(node string, bs map[string]interface{}, src *crew.SpecSource) string {
	ver := "none"
	if src != nil && src.Inline != nil {
		ver = src.Inline.Name + "/" + src.Inline.Version
		// ... and everything else the specification source says
		ver += "#" + sourceDigest(src.Inline)
	}
	if node == "" {
		node = "start"
	}
	if bs == nil {
		bs = map[string]interface{}{}
	}
	return fmt.Sprintf("%s %s spec=%s", node, jsongen.Canon(bs), ver)
}

func liveView(c *sio.Crew) map[string]string {
	out := map[string]string{}
	for mid, m := range c.Machines {
		if mid == sio.TimersMachine {
			if p := pendingView(m.State); p != "" {
				out[mid] = "pending " + p
			}
			continue
		}
		if mid == sio.CaptainMachine {
			continue
		}
		var bs map[string]interface{}
		node := ""
		if m.State != nil {
			node, bs = m.State.NodeName, map[string]interface{}(m.State.Bs)
		}
		out[mid] = machineView(node, bs, m.SpecSource)
	}
	return out
}

func (s shadowStore) view() map[string]string {
	out := map[string]string{}
	for mid, m := range s {
		if mid == sio.TimersMachine {
			if p := pendingView(m.State); p != "" {
				out[mid] = "pending " + p
			}
			continue
		}
		if mid == sio.CaptainMachine {
			continue
		}
		var bs map[string]interface{}
		node := ""
		if m.State != nil {
			node, bs = m.State.NodeName, map[string]interface{}(m.State.Bs)
		}
		out[mid] = machineView(node, bs, m.SpecSource)
	}
	return out
}

func viewText(v map[string]string) string {
	keys := make([]string, 0, len(v))
	for k := range v {
		keys = append(keys, k)
	}
	sort.Strings(keys)
	var sb strings.Builder
	for _, k := range keys {
		fmt.Fprintf(&sb, "%s: %s; ", k, v[k])
	}
	return sb.String()
}

func emittedText(r *sio.Result) string {
	var bs []string
	for _, b := range r.Emitted {
		bs = append(bs, jsongen.Canon(b))
	}
	sort.Strings(bs)
	return strings.Join(bs, " ")
}

func runRound(ctx context.Context, c *sio.Crew, r Round) (*sio.Result, error) {
	for _, op := range r.Direct {
		if err := applyDirect(ctx, c, op); err != nil {
			return nil, err
		}
	}
	var msg interface{}
	if len(r.Captain) > 0 {
		msg = captainMsg(r.Captain)
	} else {
		msg = jsongen.Copy(r.Msg)
	}
	if msg == nil {
		msg = map[string]interface{}{"to": "nobody"}
	}
	res, err := c.ProcessMsg(ctx, msg)
	if err != nil || r.Timer == nil {
		return res, err
	}
	res2, err := c.ProcessMsg(ctx, timerMsg(r.Timer))
	if err != nil {
		return nil, err
	}
	// one result for the round: later reports replace earlier ones
	if res.Changed == nil {
		res.Changed = map[string]*sio.Changed{}
	}
	for mid, ch := range res2.Changed {
		res.Changed[mid] = ch
	}
	res.Emitted = append(res.Emitted, res2.Emitted...)
	return res, nil
}

func checkCrewHistory(h CrewHistory) (v ev.Verdict) {
	ctx, cancel := context.WithCancel(context.Background())
	defer cancel()
	c, _, err := crewh.NewCrew(ctx, 100, 64)
	if err != nil {
		v.Failf("NewCrew: %v", err)
		return
	}
	shadow := shadowStore{}
	var c2 *sio.Crew
	var shadow2 shadowStore // the store as the restarted crew keeps feeding it
	multi, delRecreate, moved := false, false, false
	for i, r := range h.Rounds {
		if i == h.Restart {
			// boot a second crew from the store, the way siostd does
			js, err := json.Marshal(shadow)
			if err != nil {
				v.Failf("store not serialisable: %v", err)
				return
			}
			var ms map[string]*crew.Machine
			if err := json.Unmarshal(js, &ms); err != nil {
				v.Failf("store not readable: %v", err)
				return
			}
			c2, _, err = crewh.NewCrew(ctx, 100, 64)
			if err != nil {
				v.Failf("NewCrew: %v", err)
				return
			}
			shadow2 = shadowStore{}
			var ms2 map[string]*crew.Machine
			json.Unmarshal(js, &ms2)
			for mid, m := range ms2 {
				shadow2[mid] = m
			}
			for mid, m := range ms {
				if err := c2.SetMachine(ctx, mid, m.SpecSource, m.State); err != nil {
					v.Failf("booting %q from the store: %v", mid, err)
					return
				}
				if m.State != nil && m.State.NodeName != "start" {
					moved = true
				}
				if m.State != nil && len(m.State.Bs) > 0 {
					moved = true
				}
			}
			v.Class("restart")
		}
		seen := map[string]int{}
		deleted := map[string]bool{}
		for _, op := range append(append([]COp{}, r.Direct...), r.Captain...) {
			seen[op.Mid]++
			if seen[op.Mid] >= 2 {
				multi = true
			}
			if op.Kind == "delete" {
				deleted[op.Mid] = true
			} else if deleted[op.Mid] {
				delRecreate = true
			}
		}
		res, err := runRound(ctx, c, r)
		if err != nil {
			v.Failf("round %d: %v", i, err)
			return
		}
		if len(r.Captain) > 0 {
			// (coverage, not judged: did the captain execute the
			// operations, or is it still holding an earlier message?)
			if cm := c.Machines[sio.CaptainMachine]; cm != nil && cm.State != nil {
				if _, held := cm.State.Bs["?op"]; held || cm.State.NodeName != "start" {
					v.Class("captain-holds-an-earlier-message")
				} else {
					v.Class("captain-executed-operations")
				}
			}
		}
		shadow.fold(res.Changed)
		lv, sv := viewText(liveView(c)), viewText(shadow.view())
		if lv != sv {
			v.Failf("after round %d (%s) a store that applied every reported change differs from the live crew:\n live  %s\n store %s\n reported %s", i, ev.JS(r), lv, sv, ev.JS(res.Changed))
			return
		}
		if c2 != nil {
			res2, err := runRound(ctx, c2, r)
			if err != nil {
				v.Failf("round %d on the restarted crew: %v", i, err)
				return
			}
			if emittedText(res) != emittedText(res2) {
				v.Failf("round %d: the crew restarted from the store emits %s, the original %s", i, emittedText(res2), emittedText(res))
				return
			}
			if l2 := viewText(liveView(c2)); l2 != lv {
				v.Failf("round %d: the crew restarted from the store is at\n %s\nthe original at\n %s", i, l2, lv)
				return
			}
			// from the restart on it is the restarted crew whose reports
			// keep the store up to date
			shadow2.fold(res2.Changed)
			if sv2 := viewText(shadow2.view()); sv2 != lv {
				v.Failf("round %d (%s): after a restart at round %d, the store fed by the restarted crew's reports differs from that crew:\n live  %s\n store %s\n reported %s", i, ev.JS(r), h.Restart, lv, sv2, ev.JS(res2.Changed))
				return
			}
		}
	}
	if multi {
		v.Class("several-ops-on-one-machine-in-a-round")
	}
	if delRecreate {
		v.Class("delete-then-recreate")
	}
	v.NonTrivial = multi || delRecreate || (c2 != nil && moved)
	return
}

func TestC15Changes(t *testing.T) {
	ev.Run(t, ev.Opts{Property: "C15", Name: "changes", Quick: 3000, Thorough: 120000,
		Rule: "histories of 2-10 rounds over an sio crew: create / set state / set spec / delete / re-create of counter machines issued directly (SetMachine, DeleteMachine) and as captain messages, several per round, interleaved with routed and broadcast messages that move the machines; after every round a store folding Result.Changed like the Stdio coupling must equal the live crew (node, bindings, spec name/version, deleted absent); at a drawn boundary a second crew is booted from the JSON of the store and must stay equal (states, emissions) for the remaining rounds; non-trivial = >= 2 ops on one machine in a round, a delete followed by a re-create, or a restart with a machine away from its start state"},
		genCrewHistory, checkCrewHistory)
}
