package siocheck

import (
	"bytes"
	"context"
	"encoding/json"
	"fmt"
	"io"
	"os"
	"path/filepath"
	"strings"
	"sync"
	"testing"
	"time"

	"github.com/Comcast/sheens/core"
	"github.com/Comcast/sheens/crew"
	"github.com/Comcast/sheens/sio"
	"pgregory.net/rapid"
	"verif/lib/ev"
	"verif/lib/jsongen"
)

// ---------------------------------------------------------------- C15 (the repository's own store)
//
// The Stdio coupling is the repository's own "store that applies each
// reported change in order": it folds Result.Changed into a map and writes
// it to a file, from which the next life of the host restores the crew
// (sio/siostd).  A host lives several lives here; some of them see no
// message at all.  After every life the file must describe the live crew,
// and the crew of the last life must answer a probe like a crew that was
// never stopped.

type StdioLife struct {
	Captain  []COp         `json:"captain,omitempty"` // crew operations, one captain message, first
	Messages []interface{} `json:"messages,omitempty"`
	// Captain2: a second captain message, sent after the first Pos
	// messages (two operations on one machine with or without a move in
	// between)
	Captain2 []COp `json:"captain2,omitempty"`
	Pos      int   `json:"pos,omitempty"`
}

type StdioCase struct {
	Lives []StdioLife `json:"lives"`
}

func genStdio(t *rapid.T) StdioCase {
	c := StdioCase{}
	n := rapid.IntRange(2, 4).Draw(t, "lives")
	for li := 0; li < n; li++ {
		l := fmt.Sprintf("l%d", li)
		life := StdioLife{}
		if li == 0 || rapid.IntRange(0, 2).Draw(t, l+".ops") == 0 {
			seen := map[string]bool{}
			for j := rapid.IntRange(1, 3).Draw(t, l+".nops"); j > 0; j-- {
				op := genCOp(t, fmt.Sprintf("%s.c%d", l, j), true, true)
				if li == 0 {
					op.Kind = "create"
				}
				if seen[op.Mid] {
					continue
				}
				seen[op.Mid] = true
				if op.Kind == "setState" && !op.State {
					op.State = true
				}
				life.Captain = append(life.Captain, op)
			}
		}
		life.Captain = loneFailing(life.Captain)
		if len(life.Captain) > 0 && rapid.IntRange(0, 2).Draw(t, l+".second") == 1 {
			seen := map[string]bool{}
			for j := rapid.IntRange(1, 2).Draw(t, l+".nops2"); j > 0; j-- {
				op := genCOp(t, fmt.Sprintf("%s.d%d", l, j), true, true)
				if seen[op.Mid] {
					continue
				}
				seen[op.Mid] = true
				if op.Kind == "setState" && !op.State {
					op.State = true
				}
				life.Captain2 = append(life.Captain2, op)
			}
			life.Captain2 = loneFailing(life.Captain2)
		}
		// an idle life (no message at all) is the interesting kind
		if li > 0 && rapid.IntRange(0, 2).Draw(t, l+".idle") == 0 {
			life.Captain, life.Captain2 = nil, nil
		} else {
			for j := rapid.IntRange(0, 4).Draw(t, l+".nm"); j > 0; j-- {
				m := map[string]interface{}{"inc": float64(rapid.IntRange(1, 3).Draw(t, fmt.Sprintf("%s.m%d", l, j)))}
				if rapid.Bool().Draw(t, fmt.Sprintf("%s.to%d", l, j)) {
					m["to"] = rapid.SampledFrom(c15mids).Draw(t, fmt.Sprintf("%s.tom%d", l, j))
				}
				life.Messages = append(life.Messages, m)
			}
		}
		if len(life.Captain2) > 0 {
			life.Pos = rapid.IntRange(0, len(life.Messages)).Draw(t, l+".pos")
		}
		c.Lives = append(c.Lives, life)
	}
	return c
}

func fileView(path string) (map[string]string, error) {
	js, err := os.ReadFile(path)
	if err != nil {
		return nil, err
	}
	var ms map[string]*crew.Machine
	if err := json.Unmarshal(js, &ms); err != nil {
		return nil, fmt.Errorf("%v in %s", err, ev.Trunc(string(js), 200))
	}
	return shadowStore(ms).view(), nil
}

type lockedBuffer struct {
	mu sync.Mutex
	b  bytes.Buffer
}

func (l *lockedBuffer) Write(p []byte) (int, error) {
	l.mu.Lock()
	defer l.mu.Unlock()
	return l.b.Write(p)
}

// oneLife runs a host the way sio/siostd does and returns the view of
// the live crew when its input was used up, and the crew.
func oneLife(file string, first bool, lines []string, probe bool) (live map[string]string, answers string, err error) {
	ctx, cancel := context.WithCancel(context.Background())
	defer cancel()
	st := sio.NewStdio(false)
	pr, pw := io.Pipe()
	out := &lockedBuffer{}
	st.In, st.Out = pr, out
	st.StateOutputFilename = file
	st.WriteStatePerMsg = true
	if !first {
		st.StateInputFilename = file
	}
	c, err := sio.NewCrew(ctx, &sio.CrewConf{Id: "stdio", Ctl: &core.Control{Limit: 100}}, st)
	if err != nil {
		return nil, "", err
	}
	if err := st.Start(ctx); err != nil {
		return nil, "", err
	}
	ms, err := st.Read(ctx)
	if err != nil {
		return nil, "", fmt.Errorf("Read: %v", err)
	}
	for mid, m := range ms {
		if err := c.SetMachine(ctx, mid, m.SpecSource, m.State); err != nil {
			return nil, "", fmt.Errorf("SetMachine %s: %v", mid, err)
		}
	}
	done := make(chan error, 1)
	go func() { done <- c.Loop(ctx) }()
	// a last line whose processing leaves a trace in the output (the
	// captain deletes a machine that does not exist: a change record, no
	// change): when the coupling has printed it, every line before it
	// has been processed and its result taken over by the coupling.
	// (Crew.Loop sends its results unconditionally; ending the context
	// while a result is on its way would leave the loop blocked.)
	sentinel := fmt.Sprintf("zz-none-%d", time.Now().UnixNano())
	feed := append([]string{}, lines...)
	if len(lines) > 0 {
		// (a life that sees no message gets none: the loop stays idle)
		feed = append(feed, fmt.Sprintf(`{"to":"captain","delete":[%q]}`, sentinel))
	}
	for _, l := range feed {
		if _, err := io.WriteString(pw, l+"\n"); err != nil {
			return nil, "", err
		}
	}
	pw.Close()
	select {
	case <-st.InputEOF:
	case <-time.After(10 * time.Second):
		return nil, "", fmt.Errorf("the coupling did not reach the end of its input within 10 s")
	}
	view := func() map[string]string {
		c.Lock()
		defer c.Unlock()
		return liveView(c)
	}
	for deadline := time.Now().Add(10 * time.Second); len(lines) > 0; time.Sleep(time.Millisecond) {
		out.mu.Lock()
		seen := strings.Contains(out.b.String(), "update "+sentinel)
		out.mu.Unlock()
		if seen {
			break
		}
		if time.Now().After(deadline) {
			return nil, "", fmt.Errorf("the last input line was not processed within 10 s")
		}
	}
	time.Sleep(2 * time.Millisecond)
	live = view()
	cancel()
	select {
	case <-done:
	case <-time.After(10 * time.Second):
		return nil, "", fmt.Errorf("the crew loop did not end within 10 s")
	}
	if err := st.Stop(context.Background()); err != nil {
		return nil, "", fmt.Errorf("Stop: %v", err)
	}
	if probe {
		out.mu.Lock()
		for _, l := range strings.Split(out.b.String(), "\n") {
			if strings.HasPrefix(l, "emit") {
				answers += strings.TrimSpace(l[strings.Index(l, " "):]) + ";"
			}
		}
		out.mu.Unlock()
	}
	return live, answers, nil
}

func checkStdio(c StdioCase) (v ev.Verdict) {
	dir, err := os.MkdirTemp(workDirSio(), "c15stdio-")
	if err != nil {
		v.Failf("temp dir: %v", err)
		return
	}
	defer os.RemoveAll(dir)
	file := filepath.Join(dir, "state.json")
	idle := 0
	var all []string // every line of every life, for the crew that never stops
	probeLine := `{"inc":1}`
	for li, life := range c.Lives {
		var lines []string
		if len(life.Captain) > 0 {
			js, _ := json.Marshal(captainMsg(life.Captain))
			lines = append(lines, string(js))
		}
		for mi, m := range life.Messages {
			if len(life.Captain2) > 0 && mi == life.Pos {
				js, _ := json.Marshal(captainMsg(life.Captain2))
				lines = append(lines, string(js))
			}
			js, _ := json.Marshal(m)
			lines = append(lines, string(js))
		}
		if len(life.Captain2) > 0 && life.Pos >= len(life.Messages) {
			js, _ := json.Marshal(captainMsg(life.Captain2))
			lines = append(lines, string(js))
		}
		last := li == len(c.Lives)-1
		if last {
			lines = append(lines, probeLine)
		}
		if len(lines) == 0 {
			idle++
		}
		all = append(all, lines...)
		live, answers, err := oneLife(file, li == 0, lines, last)
		if err != nil {
			v.Failf("life %d: %v", li, err)
			return
		}
		fv, err := fileView(file)
		if err != nil {
			v.Failf("life %d: the state file cannot be read back: %v", li, err)
			return
		}
		if viewText(fv) != viewText(live) {
			v.Failf("after life %d (%d input lines) the state file does not describe the crew:\n crew %s\n file %s", li, len(lines), viewText(live), viewText(fv))
			return
		}
		if last {
			// the same lines, one life
			dir2, _ := os.MkdirTemp(workDirSio(), "c15stdio-")
			defer os.RemoveAll(dir2)
			live2, answers2, err := oneLife(filepath.Join(dir2, "state.json"), true, all, true)
			if err != nil {
				v.Failf("reference life: %v", err)
				return
			}
			if viewText(live2) != viewText(live) {
				v.Failf("a host that lived %d lives ends with crew\n %s\na host that was never stopped with\n %s", len(c.Lives), viewText(live), viewText(live2))
				return
			}
			// what the last life emitted must be among what the
			// never-stopped host emitted (the order in which machines
			// answer one message is not fixed)
			if !subMultiset(normEmit(answers), normEmit(answers2)) {
				v.Failf("the last life answered\n %s\nthe host that was never stopped answered (in the end)\n %s", ev.Trunc(answers, 600), ev.Trunc(answers2, 600))
				return
			}
		}
	}
	if idle > 0 {
		v.Class("life-without-a-message")
	}
	v.Class(fmt.Sprintf("lives:%d", len(c.Lives)))
	v.NonTrivial = len(c.Lives) >= 2
	return
}

func subMultiset(a, b []string) bool {
	have := map[string]int{}
	for _, x := range b {
		have[x]++
	}
	for _, x := range a {
		if have[x] == 0 {
			return false
		}
		have[x]--
	}
	return true
}

// normEmit drops the batch indices ("0,1 {...}") of the emit lines.
func normEmit(s string) []string {
	var out []string
	for _, l := range strings.Split(s, ";") {
		if i := strings.Index(l, "{"); i >= 0 {
			var x interface{}
			if json.Unmarshal([]byte(l[i:]), &x) == nil {
				out = append(out, jsongen.Canon(x))
			}
		}
	}
	return out
}

func workDirSio() string {
	d := os.Getenv("VERIF_WORK")
	if d == "" {
		d = os.TempDir()
	}
	return d
}

func TestC15Stdio(t *testing.T) {
	ev.Run(t, ev.Opts{Property: "C15", Name: "stdio", Quick: 600, Thorough: 8000, ShrinkTime: "10s",
		Rule: "the repository's own store (sio.Stdio + JSONStore, used the way sio/siostd uses them): 2-4 lives of a host over one state file, counter machines created / re-stated / re-specified / deleted by captain messages, routed and broadcast increments, lives that see no message at all; after every life the state file must describe the live crew, and the last life's crew and answers must be those of a host that was never stopped; non-trivial = >= 2 lives"},
		genStdio, checkStdio)
}

// The same histories under C09: persisting and reloading at a message
// boundary - here by the host's own store, and also at a boundary where
// no message has arrived since the last reload - must not be observable.
func TestC09Stdio(t *testing.T) {
	ev.Run(t, ev.Opts{Property: "C09", Name: "stdio", Quick: 600, Thorough: 8000, ShrinkTime: "10s",
		Rule: "host-level persist/reload: 2-4 lives of an sio host (sio.Stdio + JSONStore as in sio/siostd) over one state file, some lives without any message; after every life the state file must describe the live crew, and the last life's crew and answers must be those of a host that was never stopped; non-trivial = >= 2 lives"},
		genStdio, checkStdio)
}
