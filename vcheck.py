#!/usr/bin/env python3
"""vcheck -- driver for the generated checks in /verif.

usage: vcheck.py <property-id> [quick|thorough]
       vcheck.py replay <property-id> <replay-file>
       vcheck.py build            (setup: compile every test binary once)

Exit codes: 0 the property held on everything explored (KNOWN-FINDING
lines allowed); 1 at least one unlisted violation (a line
"VIOLATION property=<id> replay=<path>" is printed); 2 infrastructure
trouble (build failure, shard killed, time-out) -- inconclusive, never a
violation.
"""
import re
import glob
import json
import os
import shutil
import struct
import subprocess
import sys
import tempfile
import time

ROOT = os.path.dirname(os.path.abspath(__file__))
REPO = os.environ.get("VERIF_REPO", "/repo")
NCPU = os.cpu_count() or 4

GOENV = dict(os.environ)
GOENV.update({
    "GOFLAGS": "-mod=mod", "GOPROXY": "off", "GOSUMDB": "off",
    "GOTOOLCHAIN": "local", "VERIF_ROOT": ROOT,
})

# id -> configuration.  shards = (quick, thorough); timeout per shard (s).
CHECKS = {}


def reg(pid, pkg, run, race=False, shards=(1, 16), timeout=(900, 5400), overlay=None,
        level="exploration", assumptions=(), fuzz=None, gomaxprocs=None, crash_is_violation=False):
    CHECKS[pid] = dict(pkg=pkg, run=run, race=race, shards=shards, timeout=timeout,
                       overlay=overlay, level=level, assumptions=list(assumptions), fuzz=fuzz,
                       gomaxprocs=gomaxprocs, crash_is_violation=crash_is_violation)


OV_MCREW = dict(name="mcrew", files={
    "_overlay/mcrew/zz_verif_c16_test.go": "cmd/mcrew/zz_verif_c16_test.go",
    "_overlay/mcrew/zz_verif_c17_test.go": "cmd/mcrew/zz_verif_c17_test.go",
    "_overlay/mcrew/zz_verif_c14_test.go": "cmd/mcrew/zz_verif_c14_test.go",
    "_overlay/mcrew/zz_verif_c13_test.go": "cmd/mcrew/zz_verif_c13_test.go",
    "_overlay/mcrew/zz_verif_c09_test.go": "cmd/mcrew/zz_verif_c09_test.go",
    "_overlay/mcrew/zz_verif_c07_test.go": "cmd/mcrew/zz_verif_c07_test.go",
    "_overlay/mcrew/zz_verif_util_test.go": "cmd/mcrew/zz_verif_util_test.go",
})

OV_MDB = dict(name="mdb", files={
    "_overlay/mdb/zz_verif_c13_test.go": "cmd/mdb/zz_verif_c13_test.go",
    "_overlay/mdb/zz_verif_c07_test.go": "cmd/mdb/zz_verif_c07_test.go",
})

A_MATCH = ["the reference matcher (lib/refmatch), written from README/doc/rfc.md, is the oracle",
           "messages and bound values contain no string starting with '?' (as the property states)"]
reg("C01", "./checks/match", "^TestC01", assumptions=A_MATCH, fuzz=[("./checks/match", "FuzzC01Sound", 90)])
reg("C02", "./checks/match", "^TestC02", assumptions=A_MATCH, fuzz=[("./checks/match", "FuzzC02Planted", 60)])
reg("C03", "./checks/match", "^TestC03", race=True, shards=(2, 16), fuzz=[("./checks/match", "FuzzC03Pure", 60)],
    assumptions=["schedules are sampled by the Go scheduler under the race detector",
                 "map iteration orders are reached by rebuilding maps in permuted insertion order"])


A_CORE = ["the executable step rule (lib/sm/refstep.go), written from README 'Processing' and the documented error settings, is the oracle",
          "candidate bindings for a branch come from the real matcher (covered by C01-C03)",
          "error message texts are opaque tokens; traces are not compared"]
reg("C04", "./checks/core", "^TestC04", assumptions=A_CORE, fuzz=[("./checks/core", "FuzzC04Step", 60)])
reg("C05", "./checks/core", "^TestC05", assumptions=A_CORE)
reg("C06", "./checks/core", "^TestC06", assumptions=A_CORE[2:] + ["native actions never mutate nested values in place (actions are documented as side-effect free)"])
reg("C07", None, None)
CHECKS["C07"]["parts"] = ["C07core", "C07sio", "C07mcrew", "C07mdb"]
reg("C07core", "./checks/core", "^TestC07", crash_is_violation=True, fuzz=[("./checks/core", "FuzzC07Total", 120)], assumptions=["a nil *State and Execution literals with nil Events are API misuse, not generated", "panics inside the third-party YAML parser on byte-level garbage are not searched for"])
CHECKS["C07core"]["subchecks"] = ["total", "loaders"]
reg("C07sio", "./checks/sio", "^TestC07", shards=(4, 16), crash_is_violation=True, assumptions=["sio: the harness calls Crew.ProcessMsg itself (the crew loop does nothing else with a message); generated machines emit nothing (Crew.ProcessMsg re-injects emissions without a limit, so a machine that answers its own answers goes round for ever by specification)"])
CHECKS["C07sio"]["subchecks"] = ["sio"]
reg("C07mcrew", "./cmd/mcrew", "^TestC07", overlay=OV_MCREW, shards=(4, 16), crash_is_violation=True, assumptions=["mcrew: process requests are decoded from JSON into OpProcess and executed with OpProcess.Do, as the TCP / WebSocket / stdin listeners do"])
CHECKS["C07mcrew"]["subchecks"] = ["mcrew"]
reg("C07mdb", "./cmd/mdb", "^TestC07", overlay=OV_MDB, shards=(4, 16), crash_is_violation=True, assumptions=["mdb: machines are installed the way mdb's 'set' commands install them; Host.Process is also called with explicit control settings"])
CHECKS["C07mdb"]["subchecks"] = ["mdb"]
reg("C08", "./checks/core", "^TestC08", assumptions=A_CORE[2:] + ["the action model (lib/sm/actlang.go) says which emissions a completed action makes", "after a walk's deadline has passed a later action may complete or be cut short (both accepted)"])
reg("C09", None, None)
CHECKS["C09"]["parts"] = ["C09core", "C09sio", "C09mcrew"]
reg("C09core", "./checks/core", "^TestC09", assumptions=["specifications are deterministic by construction", "the state is serialised with core.State's own JSON tags, as sio and mcrew do"])
CHECKS["C09core"]["subchecks"] = ["plaindata"]
reg("C09sio", "./checks/sio", "^TestC09", shards=(4, 16), assumptions=["the host-level form of the property: a host (sio.Stdio, as sio/siostd uses it) that is stopped and restarted at message boundaries - also without having seen a message - ends like a host that was never stopped"])
CHECKS["C09sio"]["subchecks"] = ["stdio"]
reg("C09mcrew", "./cmd/mcrew", "^TestC09", overlay=OV_MCREW, shards=(4, 16), assumptions=["mcrew's store: the reloaded service is populated with Storage.GetCrew + AsMachines, as cmd/mcrew does at start-up"])
CHECKS["C09mcrew"]["subchecks"] = ["mcrew"]
reg("C13", None, None)
CHECKS["C13"]["parts"] = ["C13core", "C13mcrew", "C13mdb"]
reg("C13core", "./checks/core", "^TestC13", fuzz=[("./checks/core", "FuzzC13Repr", 90)], assumptions=["strings in YAML renderings are produced by the YAML library's own marshaller", "native actions cannot be represented as text and are not generated here"])
CHECKS["C13core"]["subchecks"] = ["repr"]
reg("C13mcrew", "./cmd/mcrew", "^TestC13", overlay=OV_MCREW, shards=(4, 16), assumptions=["mcrew's Service.GetSpec is called on a Service value that has only its spec directory and interpreters set"])
CHECKS["C13mcrew"]["subchecks"] = ["mcrew"]
reg("C13mdb", "./cmd/mdb", "^TestC13", overlay=OV_MDB, shards=(4, 16), assumptions=["mdb's Host.GetSpec is called on a host made by NewHost over a scratch spec directory"])
CHECKS["C13mdb"]["subchecks"] = ["mdb"]
reg("C18", "./checks/core", "^TestC18", fuzz=[("./checks/core", "FuzzC18Permanent", 45)], assumptions=A_CORE + ["an action that returns null gets empty bindings; whether permanent bindings survive that is not judged"])

A_ES = ["schedules are sampled by the Go scheduler under the race detector; a green run is 'no counterexample in the sampled schedules'"]
reg("C10", "./checks/es", "^TestC10", race=True, shards=(4, 16), assumptions=A_ES)
reg("C12", "./checks/es", "^TestC12", race=True, shards=(4, 16), gomaxprocs=[16, 4, 2, 8], assumptions=A_ES + ["a data race reported by the race detector fails the test binary (exit status), which the driver reports"])
reg("C11", "./checks/es", "^TestC11", race=True, shards=(4, 16), assumptions=["promptness is judged against deadline + 6 s (quick) / 15 s (thorough): a lost interrupt means never, so the bound is generous", "scripts spend their time in interpreted code, not in one long built-in call"])

reg("C14", None, None)
CHECKS["C14"]["parts"] = ["C14sio", "C14mcrew"]
reg("C14mcrew", "./cmd/mcrew", "^TestC14", overlay=OV_MCREW, shards=(4, 16),
    assumptions=["mcrew routes on a single machine id (lists are, by its own comment, 'not a machine id'); emissions are re-processed asynchronously, the harness waits for the expected volume plus a grace period"])
CHECKS["C14mcrew"]["subchecks"] = ["mcrew"]
reg("C14sio", "./checks/sio", "^TestC14", shards=(4, 16), assumptions=["the routing model follows doc/by-example.md and sio/crew.go's comments: 'to' absent or '*' = every ordinary machine, an id or list of ids = those machines, service machines only when addressed", "the order in which the machines of one round are visited is not constrained (multisets are compared)"])

CHECKS["C14sio"]["subchecks"] = ["sio"]
reg("C15", "./checks/sio", "^TestC15", shards=(4, 16), assumptions=["counter machines react independently (their reactions to one message commute)", "the store folds changes exactly as sio's Stdio coupling does; crash points are message boundaries"])

reg("C17sio", "./checks/sio", "^TestC17", race=True, shards=(16, 16),
    assumptions=["sio: the harness plays the crew loop (it owns the input channel), so 'during the firing' is entered deterministically; a second check runs the real Crew.Loop under the race detector",
                 "sio: the timers machine's reply to a request is read from its bindings; a second request for an id that is still pending is not generated"])
CHECKS["C17sio"]["subchecks"] = ["sio", "sioloop"]
OV_MCREW_RACE = dict(OV_MCREW, name="mcrew-race")
reg("C17", None, None, level="exploration")
CHECKS["C17"]["parts"] = ["C17mcrew", "C17sio"]
reg("C17mcrew", "./cmd/mcrew", "^TestC17", overlay=OV_MCREW_RACE, race=True, shards=(16, 16), timeout=(900, 5400),
    assumptions=["real time: 'never fires' is judged 2.5 s after the last due time; late is not wrong",
                 "interleavings between timer goroutines and the requester are sampled; the 'cancel exactly at due' window is hit probabilistically"])
CHECKS["C17mcrew"]["subchecks"] = ["mcrew"]
reg("C16", "./cmd/mcrew", "^TestC16", overlay=OV_MCREW, shards=(4, 16), level="fault_enumeration",
    assumptions=["bolt's transaction is the trusted base: a crash is modelled at operation boundaries, faults as a closed store or a rejected key",
                 "interleavings of concurrent clients are sampled"])

reg("C19", "./checks/tools", "^TestC19", shards=(16, 16), assumptions=["only soundness is judged: a spurious failure of the tool under load is not an alarm", "the emitted stream is produced by `cat` echoing each step's inputs; patterns yield at most one set of bindings"])

reg("C20", "./checks/tools", "^TestC20", fuzz=[("./checks/tools", "FuzzC20Graph", 45)], assumptions=["syntactic validity of the DOT/Mermaid text for exotic names is not judged (no Graphviz here); node names contain no line breaks, ' -> ' or ' ['", "the analysis is compared as sets and counts; 'default' stands for 'no interpreter named'"])


def log(*a):
    print(*a, flush=True)


def binpath(cfg):
    name = cfg["pkg"].strip("./").replace("/", "_")
    if cfg["overlay"]:
        name = "overlay_" + name
    if cfg["race"]:
        name += ".race"
    return os.path.join(ROOT, ".bin", name + ".test")


def point_module_at_repo():
    """The module's replace directive names /repo; a background run on a
    snapshot (vp run --with-repo) sets VERIF_REPO to its own copy."""
    mod = os.path.join(ROOT, "go.mod")
    text = open(mod).read()
    want = "replace github.com/Comcast/sheens => " + REPO
    import re as _re
    new = _re.sub(r"replace github.com/Comcast/sheens => \S+", want, text)
    if new != text:
        with open(mod, "w") as f:
            f.write(new)


def build(cfg):
    out = binpath(cfg)
    os.makedirs(os.path.dirname(out), exist_ok=True)
    point_module_at_repo()
    sync_gosum()
    cmd = ["go", "test", "-c", "-vet=off", "-o", out]
    if cfg["race"]:
        cmd.append("-race")
    cwd = ROOT
    if cfg["overlay"]:
        cwd, extra = prepare_overlay(cfg)
        cmd += extra
    cmd.append(cfg["pkg"])
    p = subprocess.run(cmd, cwd=cwd, env=GOENV, stdout=subprocess.PIPE, stderr=subprocess.STDOUT, text=True)
    if p.returncode != 0:
        log("BUILD FAILED:", " ".join(cmd))
        log(p.stdout[-6000:])
        return None
    return out


def sync_gosum():
    """go.sum = /repo's go.sum + the lines for rapid (kept in go.sum.extra)."""
    try:
        base = open(os.path.join(REPO, "go.sum")).read()
    except OSError:
        base = ""
    extra = open(os.path.join(ROOT, "go.sum.extra")).read()
    want = base + ("" if base.endswith("\n") or not base else "\n") + extra
    cur = ""
    try:
        cur = open(os.path.join(ROOT, "go.sum")).read()
    except OSError:
        pass
    have = set(cur.splitlines())
    if not set(want.splitlines()) <= have:
        with open(os.path.join(ROOT, "go.sum"), "w") as f:
            f.write(want)


def prepare_overlay(cfg):
    """Overlay checks compile a package of /repo with extra _test.go files
    (and an alternative go.mod that also requires rapid), leaving /repo
    untouched.  Returns (cwd, extra go flags)."""
    ov = cfg["overlay"]
    work = os.path.join(ROOT, ".work", "overlay-" + ov["name"])
    os.makedirs(work, exist_ok=True)
    # alternative module file: /repo's go.mod + rapid
    mod = open(os.path.join(REPO, "go.mod")).read()
    # The package under test must be compiled as the language version
    # /repo's go.mod names (e.g. 1.20: one loop variable per loop, not per
    # iteration).  The go command raises the version of this alternative
    # module file to that of rapid's go.mod (1.23), so the compiler is told
    # the language version of /repo's packages explicitly.
    m = re.search(r"^go\s+(\d+\.\d+)", mod, re.M)
    gover = m.group(1) if m else "1.20"
    mod += "\nrequire pgregory.net/rapid v1.3.0\nrequire verif v0.0.0\nreplace verif => %s\n" % ROOT
    modfile = os.path.join(work, "go.mod")
    with open(modfile, "w") as f:
        f.write(mod)
    s = open(os.path.join(REPO, "go.sum")).read()
    s += open(os.path.join(ROOT, "go.sum.extra")).read()
    with open(os.path.join(work, "go.sum"), "w") as f:
        f.write(s)
    repl = {}
    for src, dst in ov["files"].items():
        repl[os.path.join(REPO, dst)] = os.path.join(ROOT, src)
    ovfile = os.path.join(work, "overlay.json")
    with open(ovfile, "w") as f:
        json.dump({"Replace": repl}, f)
    return REPO, ["-modfile=" + modfile, "-overlay=" + ovfile,
                  "-gcflags=github.com/Comcast/sheens/...=-lang=go" + gover]


def merge_stats(paths):
    subs = {}
    for p in paths:
        if not os.path.exists(p):
            continue
        for line in open(p):
            line = line.strip()
            if not line:
                continue
            d = json.loads(line)
            s = subs.setdefault(d["name"], dict(name=d["name"], requested=0, evaluations=0, nontrivial=0,
                                                classes={}, skipped={}, samples=[], rule=d.get("rule", ""),
                                                exhaustive=False, violations=0, known=[], hashes=set(),
                                                notes={}, shards=0, wall_s=0.0, replay=False))
            s["shards"] += 1
            s["requested"] += d.get("requested", 0)
            s["evaluations"] += d.get("evaluations", 0)
            s["nontrivial"] += d.get("nontrivial", 0)
            s["violations"] += d.get("violations", 0)
            s["exhaustive"] = s["exhaustive"] or d.get("exhaustive", False)
            s["replay"] = s["replay"] or d.get("replay", False)
            s["wall_s"] = max(s["wall_s"], d.get("wall_s", 0.0))
            for k, v in (d.get("classes") or {}).items():
                s["classes"][k] = s["classes"].get(k, 0) + v
            for k, v in (d.get("skipped") or {}).items():
                s["skipped"][k] = s["skipped"].get(k, 0) + v
            for k, v in (d.get("notes") or {}).items():
                if isinstance(v, (int, float)) and isinstance(s["notes"].get(k, 0), (int, float)):
                    s["notes"][k] = s["notes"].get(k, 0) + v
                else:
                    s["notes"][k] = v
            for x in d.get("known") or []:
                if x not in s["known"]:
                    s["known"].append(x)
            if len(s["samples"]) < 4:
                s["samples"] += (d.get("samples") or [])[: 4 - len(s["samples"])]
            hf = d.get("hash_file")
            if hf and os.path.exists(hf):
                raw = open(hf, "rb").read()
                n = len(raw) // 8
                s["hashes"].update(struct.unpack("<%dQ" % n, raw[: 8 * n]))
    return subs


def write_evidence(pid, cfg, tier, seed, subs, wall, violations, inconclusive, extra=None):
    if os.environ.get("VERIF_NO_EVIDENCE"):
        return  # sensitivity runs against deliberately broken trees leave the evidence alone
    evaluations = sum(s["evaluations"] for s in subs.values())
    distinct = sum(len(s["hashes"]) for s in subs.values())
    samples = []
    for s in subs.values():
        for x in s["samples"][:2]:
            samples.append({"check": s["name"], "case": x})
    classes = {}
    for s in subs.values():
        for k, v in s["classes"].items():
            classes[s["name"] + ":" + k] = v
    cov = {
        "evaluations": evaluations,
        "distinct_nontrivial": distinct,
        "rule": " || ".join("%s: %s" % (s["name"], s["rule"]) for s in subs.values()),
        "samples": samples,
        "classes": classes,
        "subchecks": {
            s["name"]: {
                "requested": s["requested"], "evaluations": s["evaluations"],
                "nontrivial": s["nontrivial"], "distinct_nontrivial": len(s["hashes"]),
                "known_excluded": s["skipped"], "exhaustive": s["exhaustive"],
                "notes": s["notes"], "shards": s["shards"], "known_findings": s["known"],
            } for s in subs.values()
        },
        "exhaustive": False,
        "inconclusive": inconclusive,
    }
    if extra:
        cov.update(extra)
    doc = {
        "property_id": pid, "tier": tier, "seed": seed, "level": cfg["level"],
        "coverage": cov, "assumptions": cfg["assumptions"], "wall_s": round(wall, 2),
        "violations": violations,
    }
    os.makedirs(os.path.join(ROOT, "evidence"), exist_ok=True)
    tmp = os.path.join(ROOT, "evidence", pid + ".json.tmp")
    with open(tmp, "w") as f:
        json.dump(doc, f, indent=1, sort_keys=True)
    os.replace(tmp, os.path.join(ROOT, "evidence", pid + ".json"))


def run_fuzz(pid, pkg, target, seconds, work):
    """Coverage-guided campaign (go test -fuzz) on top of the seeded runs;
    cannot be pinned to a seed: the saved failing case is the reproducible unit."""
    import re
    env = dict(GOENV)
    env.update({"VERIF_REPLAY_DIR": os.path.join(ROOT, "replays"), "VERIF_WORK": work, "VERIF_TIER": "thorough"})
    t0 = time.time()
    cmd = ["go", "test", pkg, "-run", "^$", "-fuzz", "^%s$" % target, "-fuzztime", "%ds" % seconds, "-vet=off"]
    p = subprocess.run(cmd, cwd=ROOT, env=env, stdout=subprocess.PIPE, stderr=subprocess.STDOUT, text=True)
    execs = [int(x) for x in re.findall(r"execs: (\d+)", p.stdout)]
    info = {"target": target, "seconds": seconds, "execs": max(execs) if execs else 0, "violations": []}
    # the fuzzer's own crasher files are not needed (the worker wrote a replay)
    shutil.rmtree(os.path.join(ROOT, pkg, "testdata", "fuzz"), ignore_errors=True)
    if p.returncode != 0:
        new = [f for f in glob.glob(os.path.join(ROOT, "replays", pid, "fuzz-*.json")) if os.path.getmtime(f) >= t0 - 1]
        if new:
            f = sorted(new, key=os.path.getmtime)[-1]
            msg = ""
            try:
                msg = json.load(open(f)).get("message", "")
            except Exception:
                pass
            info["violations"].append(("VIOLATION property=%s replay=%s" % (pid, f), "  %s/fuzz: %s" % (pid, msg[:300])))
        elif "fatal error:" in p.stdout and cfg_crash(pid):
            journals = sorted(glob.glob(os.path.join(work, "journal-%s-*.json" % pid)), key=os.path.getmtime)
            if journals:
                os.makedirs(os.path.join(ROOT, "replays", pid), exist_ok=True)
                dst = os.path.join(ROOT, "replays", pid, "crash-fuzz-%d.json" % int(time.time()))
                shutil.copy(journals[-1], dst)
                info["violations"].append(("VIOLATION property=%s replay=%s" % (pid, dst), "  %s/fuzz: the fuzz worker died (fatal error)" % pid))
        else:
            log("native fuzz run of %s ended abnormally (not counted):" % target)
            log(p.stdout[-1500:])
            info["abnormal"] = True
    return info


def cfg_crash(pid):
    return CHECKS.get(pid, {}).get("crash_is_violation", False)


def run_check(pid, tier, replay=None):
    cfg = CHECKS[pid]
    if cfg.get("parts"):
        return run_parts(pid, cfg, tier, replay)
    rc, subs, wall, nviol = run_one(pid, cfg, tier, replay)
    import re as _re
    if not replay and subs is not None and _re.fullmatch(r"C[0-9]{2,3}", pid):
        seed = int(os.environ.get("VERIF_SEED", "1") or "1")
        write_evidence(pid, cfg, tier, seed, subs, wall, nviol, rc == 2)
    return rc


def run_parts(pid, cfg, tier, replay):
    """A property checked by several test binaries (e.g. both crew hosts)."""
    t0 = time.time()
    seed = int(os.environ.get("VERIF_SEED", "1") or "1")
    rcs, allsubs, nviol = [], {}, 0
    for part in cfg["parts"]:
        pc = CHECKS[part]
        if replay:
            # a replay file names its sub-check; run the part that has it
            try:
                name = json.load(open(replay)).get("check", "")
            except Exception:
                name = ""
            if name not in pc.get("subchecks", []):
                continue
        rc, subs, wall, nv = run_one(pid, pc, tier, replay)
        rcs.append(rc)
        nviol += nv
        if subs:
            allsubs.update(subs)
    if not rcs:
        log("no part of %s knows the sub-check of this replay file" % pid)
        return 2
    rc = 1 if 1 in rcs else (2 if 2 in rcs else 0)
    if not replay:
        merged = dict(cfg)
        merged["assumptions"] = sum((CHECKS[p]["assumptions"] for p in cfg["parts"]), [])
        write_evidence(pid, merged, tier, seed, allsubs, time.time() - t0, nviol, rc == 2)
    return rc


def run_one(pid, cfg, tier, replay=None):
    seed = int(os.environ.get("VERIF_SEED", "1") or "1")
    t0 = time.time()
    binary = build(cfg)
    if binary is None:
        return 2, None, 0.0, 0
    nshards = cfg["shards"][0 if tier == "quick" else 1]
    timeout = cfg["timeout"][0 if tier == "quick" else 1]
    if replay:
        nshards = 1
    work = tempfile.mkdtemp(prefix="vcheck-%s-" % pid, dir=os.path.join(ROOT, ".work") if os.path.isdir(os.path.join(ROOT, ".work")) else None)
    procs = []
    for k in range(nshards):
        env = dict(GOENV)
        env.update({
            "VERIF_TIER": tier, "VERIF_SEED": str(seed), "VERIF_SHARD": str(k),
            "VERIF_NSHARDS": str(nshards), "VERIF_STATS": os.path.join(work, "stats.%d.jsonl" % k),
            "VERIF_REPLAY_DIR": os.path.join(ROOT, "replays"),
            "VERIF_WORK": os.path.join(work, "w%d" % k),
            "GORACE": "halt_on_error=0 log_path=" + os.path.join(work, "race.%d" % k),
        })
        os.makedirs(env["VERIF_WORK"], exist_ok=True)
        if replay:
            env["VERIF_REPLAY"] = os.path.abspath(replay)
        if cfg["gomaxprocs"]:
            env["GOMAXPROCS"] = str(cfg["gomaxprocs"][k % len(cfg["gomaxprocs"])])
        cmd = [binary, "-test.run", cfg["run"], "-test.timeout", "%ds" % timeout, "-test.count", "1"]
        out = open(os.path.join(work, "out.%d.txt" % k), "w")
        cwd = env["VERIF_WORK"]
        procs.append((k, subprocess.Popen(cmd, cwd=cwd, env=env, stdout=out, stderr=subprocess.STDOUT), out))
    infra = False
    for k, p, out in procs:
        try:
            p.wait(timeout=timeout + 120)
        except subprocess.TimeoutExpired:
            p.kill()
            p.wait()
            infra = True
            log("shard %d: killed after %ds (inconclusive)" % (k, timeout + 120))
        out.close()
    violations = []
    known = []
    bad_shards = []
    for k, p, _ in procs:
        text = open(os.path.join(work, "out.%d.txt" % k), errors="replace").read()
        has_violation = False
        lines = text.splitlines()
        for i, line in enumerate(lines):
            if line.startswith("VIOLATION property="):
                has_violation = True
                detail = lines[i + 1] if i + 1 < len(lines) and lines[i + 1].startswith("  ") else ""
                if line not in [v[0] for v in violations]:
                    violations.append((line, detail))
            elif line.startswith("KNOWN-FINDING:"):
                if line not in known:
                    known.append(line)
        if p.returncode != 0 and not has_violation:
            crashed = ("fatal error:" in text or "\npanic:" in text) and "github.com/Comcast/sheens" in text
            journals = sorted(glob.glob(os.path.join(work, "w%d" % k, "journal-%s-*.json" % pid)), key=os.path.getmtime)
            if cfg["crash_is_violation"] and crashed and journals:
                # the process itself died (e.g. a stack overflow): that is a
                # violation of "never crashes the host process"; the
                # journalled case is the replay
                os.makedirs(os.path.join(ROOT, "replays", pid), exist_ok=True)
                dst = os.path.join(ROOT, "replays", pid, "crash-%d-%d.json" % (int(time.time()), k))
                shutil.copy(journals[-1], dst)
                first = [l for l in text.splitlines() if l.startswith("fatal error:") or l.startswith("panic:")]
                violations.append(("VIOLATION property=%s replay=%s" % (pid, dst),
                                   "  %s: the test process died: %s" % (pid, first[0] if first else "fatal error")))
            else:
                bad_shards.append((k, p.returncode, text))
    # race detector reports (GORACE log_path): a race with frames in
    # sheens code is a violation; one confined to the harness is our bug
    for rf in sorted(glob.glob(os.path.join(work, "race.*"))):
        rtext = open(rf, errors="replace").read()
        if "DATA RACE" not in rtext:
            continue
        k = int(os.path.basename(rf).split(".")[1])
        bad_shards = [b for b in bad_shards if b[0] != k]
        # frames are attributed by file: sources under /repo, except the
        # harness files injected with -overlay (zz_verif_*)
        sheens_lines = [l for l in rtext.splitlines() if (REPO + "/") in l and "zz_verif_" not in l]
        if sheens_lines:
            os.makedirs(os.path.join(ROOT, "replays", pid), exist_ok=True)
            dst = os.path.join(ROOT, "replays", pid, "race-%d-%d.json" % (int(time.time()), k))
            journals = sorted(glob.glob(os.path.join(work, "w%d" % k, "journal-%s-*.json" % pid)), key=os.path.getmtime)
            case = None
            if journals:
                try:
                    case = json.load(open(journals[-1])).get("case")
                except Exception:
                    case = None
            with open(dst, "w") as f:
                json.dump({"property": pid, "check": "race", "message": rtext[:6000], "case": case}, f, indent=1)
            frames = [l.strip() for l in sheens_lines][:3]
            line = "VIOLATION property=%s replay=%s" % (pid, dst)
            if line not in [v[0] for v in violations]:
                violations.append((line, "  %s: the race detector reports a data race in %s" % (pid, "; ".join(frames))))
        else:
            infra = True
            log("race report without sheens frames (harness problem):")
            log(rtext[:2000])
    subs = merge_stats([os.path.join(work, "stats.%d.jsonl" % k) for k in range(nshards)])
    # every shard must have explored what it was asked to
    short = [s["name"] for s in subs.values() if not s["replay"] and s["violations"] == 0
             and s["evaluations"] + sum(s["skipped"].values()) < s["requested"]]
    fuzz_info = []
    if tier == "thorough" and not replay and cfg.get("fuzz") and not violations:
        for pkg, target, seconds in cfg["fuzz"]:
            fr = run_fuzz(pid, pkg, target, seconds, work)
            fuzz_info.append(fr)
            for line, detail in fr.pop("violations"):
                violations.append((line, detail))
    for line in known:
        log(line)
    rc = 0
    if violations:
        for line, detail in violations:
            log(line)
            if detail:
                log(detail)
        rc = 1
    elif bad_shards or infra or short or not subs:
        for k, code, text in bad_shards[:2]:
            keep = os.path.join(ROOT, ".work", "last-bad-%s-%d.txt" % (pid, k))
            try:
                with open(keep, "w") as f:
                    f.write(text)
            except OSError:
                keep = "(not saved)"
            log("shard %d exited %s without a verdict; full output kept in %s; tail:" % (k, code, keep))
            log(text[-3000:])
        if short:
            log("inconclusive: sub-checks %s explored fewer cases than requested" % short)
        if not subs:
            log("inconclusive: no statistics were written")
        rc = 2
    wall = time.time() - t0
    ev = sum(s["evaluations"] for s in subs.values())
    log("%s %s: %d cases, %d distinct non-trivial, %d shard(s), %.1fs -> %s" % (
        pid, tier, ev, sum(len(s["hashes"]) for s in subs.values()), nshards, wall,
        {0: "held", 1: "VIOLATED", 2: "INCONCLUSIVE"}[rc]))
    shutil.rmtree(work, ignore_errors=True)
    if fuzz_info and subs:
        first = next(iter(subs.values()))
        first["notes"]["native_fuzz"] = fuzz_info
    return rc, subs, wall, len(violations)


def main(argv):
    if len(argv) >= 2 and argv[1] == "build":
        rc = 0
        seen = set()
        for pid, cfg in CHECKS.items():
            if not cfg["pkg"]:
                continue
            key = binpath(cfg)
            if key in seen:
                continue
            seen.add(key)
            if build(cfg) is None:
                rc = 2
        return rc
    if len(argv) >= 4 and argv[1] == "replay":
        return run_check(argv[2], os.environ.get("VERIF_TIER", "quick"), replay=argv[3])
    if len(argv) < 2 or argv[1] not in CHECKS:
        log(__doc__)
        return 2
    tier = argv[2] if len(argv) > 2 else os.environ.get("VERIF_TIER", "quick")
    if tier not in ("quick", "thorough"):
        tier = "quick"
    os.makedirs(os.path.join(ROOT, ".work"), exist_ok=True)
    return run_check(argv[1], tier)


if __name__ == "__main__":
    sys.exit(main(sys.argv))
